#!/opt/veriftools/pyvenv/bin/python
import json,sys,glob,jsonschema
m=json.load(open('/verif/MANIFEST.json')); jsonschema.validate(m,json.load(open('/root/.vp/MANIFEST.schema.json')))
es=json.load(open('/root/.vp/EVIDENCE.schema.json'))
for f in glob.glob('/verif/evidence/*.json'):
    jsonschema.validate(json.load(open(f)),es)
ids=[json.loads(l)['id'] for l in open('/verif/properties.jsonl')]
claimed={c['property_id'] for c in m['checks']}; na={c['property_id'] for c in m.get('not_applicable',[])}
assert claimed|na==set(ids) and not (claimed&na), (set(ids)-claimed-na, claimed&na)
print('manifest+evidence valid; claimed',sorted(claimed))
