#!/bin/bash
# usage: seedconfirm.sh <ID> <variant> [patchfile]   — confirms a seeded change in a scratch worktree and stores it under /verif/seeded
set -u
ID="$1"; V="$2"; SRC=${SEEDROOT:-/tmp/seedout}/$ID/$V; PATCH="${3:-$SRC/patch.diff}"
export PATH=/opt/veriftools/go1.26.8/bin:$PATH GOFLAGS= GOPROXY=off GOSUMDB=off GOTOOLCHAIN=local
WT=/tmp/confirm_$ID$V; rm -rf $WT; git -C /repo worktree add -q --detach $WT HEAD || exit 3
cd $WT
DEST=$(head -1 $SRC/demo_test.go | grep -oE "(pkg|test|cmd|internal)/[A-Za-z0-9_/.-]*_test\.go" | head -1)
[ -z "$DEST" ] && { echo "no dest in demo first line: $(head -1 $SRC/demo_test.go)"; git -C /repo worktree remove --force $WT; exit 3; }
PKG=./$(dirname $DEST)
cp $SRC/demo_test.go $DEST
R=""
go test -vet=off -count=1 $PKG > /tmp/c1.$$ 2>&1 && R="$R demo-passes-unmodified" || R="$R DEMO-FAILS-UNMODIFIED"
git apply "$PATCH" && R="$R applied" || R="$R APPLY-FAILED"
go build ./... > /tmp/c2.$$ 2>&1 && R="$R builds" || R="$R BUILD-FAILS"
go test -vet=off -count=1 $PKG > /tmp/c3.$$ 2>&1 && R="$R DEMO-PASSES-WITH-CHANGE" || R="$R demo-fails-with-change"
rm $DEST
go test -vet=off -count=1 $PKG > /tmp/c4.$$ 2>&1 && R="$R existing-tests-pass" || R="$R EXISTING-TESTS-FAIL"
echo "$ID/$V:$R"
cd /; git -C /repo worktree remove --force $WT
case "$R" in *UNMODIFIED*|*APPLY-FAILED*|*BUILD-FAILS*|*PASSES-WITH*|*TESTS-FAIL*) tail -5 /tmp/c1.$$ /tmp/c3.$$ /tmp/c4.$$; rm -f /tmp/c?.$$; exit 1;; esac
D=/verif/seeded/$ID-${DESTV:-$V}; mkdir -p $D; cp "$PATCH" $D/patch.diff; cp $SRC/demo_test.go $D/demo_test.go
python3 - "$SRC/meta.json" "$D/meta.json" "$R" "$DEST" <<'P'
import json,sys
m=json.load(open(sys.argv[1])); m['confirmed']=sys.argv[3].split(); m['demo_path']=sys.argv[4]
m['confirm_cmd']='seedconfirm.sh: scratch worktree of /repo HEAD; demo passes unmodified, fails with patch; package tests pass with patch'
json.dump(m,open(sys.argv[2],'w'),indent=1)
P
rm -f /tmp/c?.$$
