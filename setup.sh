#!/bin/bash
# builds the engine from /verif/engine (offline; x/tools v0.50.0 from the module cache)
set -e
cd "$(dirname "$0")/engine"
export PATH=/opt/veriftools/go1.26.8/bin:$PATH GOPROXY=off GOSUMDB=off GOTOOLCHAIN=local GOFLAGS=-mod=mod
mkdir -p ../bin ../evidence ../out
TAGS=""
if ls llir_*.go >/dev/null 2>&1 && [ -f .llir_ready ]; then TAGS="-tags llir"; fi
go build $TAGS -o ../bin/bngsym.new . && mv ../bin/bngsym.new ../bin/bngsym
