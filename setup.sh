#!/bin/bash
# builds the engine from /verif/engine (offline; x/tools v0.50.0 from the module cache)
set -e
cd "$(dirname "$0")/engine"
export PATH=/opt/veriftools/go1.26.8/bin:$PATH GOPROXY=off GOSUMDB=off GOTOOLCHAIN=local GOFLAGS=-mod=mod
mkdir -p ../bin ../evidence ../out
if [ -f .llir_ready ]; then
  go build -tags llir -o ../bin/bngsym.new . && mv ../bin/bngsym.new ../bin/bngsym
else
  # the LLVM-IR front end (llir_*.go) is not part of the build until it is marked ready
  B=../bin/.build; rm -rf $B; mkdir -p $B
  for f in *.go go.mod go.sum; do case $f in llir_*) ;; *) cp $f $B/;; esac; done
  (cd $B && go build -o ../bngsym.new . ) && mv ../bin/bngsym.new ../bin/bngsym
fi
