#!/bin/bash
# usage: runall.sh quick|thorough [ids...]  — runs the registered checks sequentially, prints one summary line per property
cd "$(dirname "$0")"
TIER="${1:-quick}"; shift
IDS="$@"; [ -z "$IDS" ] && IDS=$(python3 -c "import json;print(' '.join(c['property_id'] for c in json.load(open('MANIFEST.json'))['checks']))")
for id in $IDS; do
  s=$(date +%s); out=$(./check $id $TIER 2>&1); rc=$?; e=$(date +%s)
  echo "$id $TIER exit=$rc wall=$((e-s))s $(echo "$out" | grep -c '^KNOWN-FINDING') known; $(echo "$out" | grep -E '^(VIOLATION|INCONCLUSIVE)' | head -3 | tr '\n' ' ')"
done
