/* Native driver for the differential self-test of bngsym's LLVM-IR interpreter.
 *
 * This file is #included at the end of a generated translation unit that first includes one eBPF program source
 * (so the program's maps and entry points are visible) and defines
 *     VERIF_MAPS(X)     X(name, type, key_size, value_size, max_entries)  for every map
 *     VERIF_ENTRIES(X)  X(function, is_xdp)                               for every entry point
 * The helpers operate on simple in-memory maps. Test cases are read from stdin, results are written to stdout:
 *
 *   T <entry> <len> <cap> <now>       start a test case
 *   P <hex>                           packet buffer (cap bytes)
 *   M <map> <keyhex> <valhex>         initial map entry
 *   R                                 run; prints
 *       V <verdict> <newlen>
 *       P <hex of the first newlen bytes>
 *       M <map> <keyhex> <valhex>     every live map entry afterwards
 *       O <map> <hex>                 every perf/ringbuf record emitted
 *       E
 */
#include <stdio.h>
#include <stdlib.h>
#include <string.h>
#include <stdint.h>
#include <sys/mman.h>

struct vent { unsigned char *key, *val; int live; struct vent *next; };
struct vmap { const char *name; void *handle; int type, ks, vs, max; struct vent *ents, *tail; };

#define X_MAP(n, t, k, v, m) { #n, &n, t, k, v, m, 0, 0 },
static struct vmap vmaps[] = { VERIF_MAPS(X_MAP) { 0 } };

static unsigned long long v_now;
static unsigned char *v_pkt;
static int v_len, v_cap;
static void *v_ctx;
static int v_is_xdp;

static struct vmap *find_map(void *h) {
	for (struct vmap *m = vmaps; m->name; m++)
		if (m->handle == h) return m;
	fprintf(stderr, "driver: helper called with unknown map %p\n", h);
	exit(3);
}

static struct vent *add_ent(struct vmap *m, const void *key, const void *val) {
	struct vent *e = calloc(1, sizeof *e);
	e->key = malloc(m->ks ? m->ks : 1);
	e->val = malloc(m->vs ? m->vs : 1);
	memcpy(e->key, key, m->ks);
	if (val) memcpy(e->val, val, m->vs); else memset(e->val, 0, m->vs);
	e->live = 1;
	if (m->tail) m->tail->next = e; else m->ents = e;
	m->tail = e;
	return e;
}

static struct vent *find_ent(struct vmap *m, const void *key) {
	for (struct vent *e = m->ents; e; e = e->next)
		if (e->live && memcmp(e->key, key, m->ks) == 0) return e;
	return 0;
}

static int is_array(struct vmap *m) { return m->type == 2 || m->type == 6; }
static int is_hash(struct vmap *m) { return m->type == 1 || m->type == 5 || m->type == 9 || m->type == 10; }

static struct vent *lpm_find(struct vmap *m, const unsigned char *key) {
	struct vent *best = 0;
	uint32_t kpl, bestpl = 0;
	memcpy(&kpl, key, 4);
	for (struct vent *e = m->ents; e; e = e->next) {
		uint32_t pl;
		if (!e->live) continue;
		memcpy(&pl, e->key, 4);
		if (pl > kpl) continue;
		int ok = 1;
		for (uint32_t b = 0; b < pl && ok; b++) {
			int byte = 4 + b / 8, bit = 7 - b % 8;
			if (((e->key[byte] >> bit) & 1) != ((key[byte] >> bit) & 1)) ok = 0;
		}
		if (ok && (!best || pl > bestpl)) { best = e; bestpl = pl; }
	}
	return best;
}

void *bpf_map_lookup_elem(void *map, const void *key) {
	struct vmap *m = find_map(map);
	if (is_array(m)) {
		uint32_t idx;
		memcpy(&idx, key, 4);
		if (idx >= (uint32_t)m->max) return 0;
		struct vent *e = find_ent(m, key);
		if (!e) e = add_ent(m, key, 0);
		return e->val;
	}
	if (is_hash(m)) {
		struct vent *e = find_ent(m, key);
		return e ? e->val : 0;
	}
	if (m->type == 11) {
		struct vent *e = lpm_find(m, key);
		return e ? e->val : 0;
	}
	fprintf(stderr, "driver: lookup on map %s of type %d\n", m->name, m->type);
	exit(3);
}

long bpf_map_update_elem(void *map, const void *key, const void *value, __u64 flags) {
	struct vmap *m = find_map(map);
	if (flags > 2) return -22;
	if (is_array(m)) {
		uint32_t idx;
		memcpy(&idx, key, 4);
		if (idx >= (uint32_t)m->max) return -7;
		if (flags == 1) return -17;
		struct vent *e = find_ent(m, key);
		if (!e) e = add_ent(m, key, 0);
		memcpy(e->val, value, m->vs);
		return 0;
	}
	struct vent *e = find_ent(m, key);
	if (e) {
		if (flags == 1) return -17;
		memcpy(e->val, value, m->vs);
		return 0;
	}
	if (flags == 2) return -2;
	add_ent(m, key, value);
	return 0;
}

long bpf_map_delete_elem(void *map, const void *key) {
	struct vmap *m = find_map(map);
	if (is_array(m)) return -22;
	struct vent *e = find_ent(m, key);
	if (!e) return -2;
	e->live = 0; /* the value stays allocated: the program may still hold a pointer to it */
	return 0;
}

__u64 bpf_ktime_get_ns(void) { return v_now; }
long bpf_trace_printk(const char *fmt, __u32 fmt_size, ...) { return 0; }
__u32 bpf_get_smp_processor_id(void) { return 0; }

static void hexout(const unsigned char *p, int n) {
	for (int i = 0; i < n; i++) printf("%02x", p[i]);
}

struct vout { struct vmap *m; unsigned char *data; int n; struct vout *next; };
static struct vout *outs, *outs_tail;
static void emit(struct vmap *m, const void *data, int n) {
	struct vout *o = calloc(1, sizeof *o);
	o->m = m; o->n = n; o->data = malloc(n ? n : 1);
	memcpy(o->data, data, n);
	if (outs_tail) outs_tail->next = o; else outs = o;
	outs_tail = o;
}

long bpf_perf_event_output(void *ctx, void *map, __u64 flags, void *data, __u64 size) {
	emit(find_map(map), data, (int)size);
	return 0;
}

struct rbrec { struct vmap *m; int n; };
void *bpf_ringbuf_reserve(void *ringbuf, __u64 size, __u64 flags) {
	struct rbrec *r = malloc(sizeof *r + size);
	r->m = find_map(ringbuf);
	r->n = (int)size;
	return r + 1;
}
void bpf_ringbuf_submit(void *data, __u64 flags) {
	struct rbrec *r = (struct rbrec *)data - 1;
	emit(r->m, data, r->n);
	free(r);
}
void bpf_ringbuf_discard(void *data, __u64 flags) { free((struct rbrec *)data - 1); }
long bpf_ringbuf_output(void *ringbuf, void *data, __u64 size, __u64 flags) {
	emit(find_map(ringbuf), data, (int)size);
	return 0;
}

long bpf_xdp_adjust_tail(struct xdp_md *ctx, int delta) {
	long nl = (long)v_len + delta;
	if (nl < 14 || nl > v_cap) return -1;
	v_len = (int)nl;
	ctx->data_end = ctx->data + (unsigned)v_len;
	return 0;
}

struct ventry { const char *name; int is_xdp; int (*xdp)(struct xdp_md *); int (*tc)(struct __sk_buff *); };
#define X_ENT(f, isx) { #f, isx, isx ? (int (*)(struct xdp_md *))(void *)f : 0, isx ? 0 : (int (*)(struct __sk_buff *))(void *)f },
static struct ventry ventries[] = { VERIF_ENTRIES(X_ENT) { 0 } };

static int unhex(const char *s, unsigned char *out, int max) {
	int n = 0;
	while (s[0] && s[1] && s[0] != '\n' && s[0] != ' ') {
		unsigned v;
		if (sscanf(s, "%2x", &v) != 1 || n >= max) return -1;
		out[n++] = (unsigned char)v;
		s += 2;
	}
	return n;
}

static void reset_maps(void) {
	for (struct vmap *m = vmaps; m->name; m++) {
		/* entries are leaked on purpose (tiny), so that stale pointers never alias new entries */
		m->ents = m->tail = 0;
	}
	outs = outs_tail = 0;
}

int main(void) {
	static char line[1 << 16];
	static unsigned char kb[4096], vb[4096];
	v_pkt = mmap(0, 1 << 16, PROT_READ | PROT_WRITE, MAP_PRIVATE | MAP_ANONYMOUS | MAP_32BIT, -1, 0);
	if (v_pkt == MAP_FAILED) { perror("mmap"); return 3; }
	int entry = -1;
	while (fgets(line, sizeof line, stdin)) {
		switch (line[0]) {
		case 'T': {
			reset_maps();
			if (sscanf(line + 1, "%d %d %d %llu", &entry, &v_len, &v_cap, &v_now) != 4) return 3;
			break;
		}
		case 'P':
			memset(v_pkt, 0, 1 << 16);
			if (unhex(line + 2, v_pkt, 1 << 16) != v_cap) { fprintf(stderr, "driver: packet size mismatch\n"); return 3; }
			break;
		case 'M': {
			char name[128], ks[8300], vs[8300];
			ks[0] = vs[0] = 0;
			if (sscanf(line + 1, "%127s %8299s %8299s", name, ks, vs) < 2) return 3;
			struct vmap *m = vmaps;
			while (m->name && strcmp(m->name, name)) m++;
			if (!m->name) { fprintf(stderr, "driver: unknown map %s\n", name); return 3; }
			if (unhex(ks, kb, sizeof kb) != m->ks || unhex(vs, vb, sizeof vb) != m->vs) { fprintf(stderr, "driver: bad entry for %s\n", name); return 3; }
			add_ent(m, kb, vb);
			break;
		}
		case 'R': {
			int verdict;
			struct ventry *e = &ventries[entry];
			if (e->is_xdp) {
				struct xdp_md ctx;
				memset(&ctx, 0, sizeof ctx);
				ctx.data = (unsigned)(uintptr_t)v_pkt;
				ctx.data_meta = ctx.data;
				ctx.data_end = ctx.data + (unsigned)v_len;
				verdict = e->xdp(&ctx);
			} else {
				struct __sk_buff skb;
				memset(&skb, 0, sizeof skb);
				skb.data = (unsigned)(uintptr_t)v_pkt;
				skb.data_end = skb.data + (unsigned)v_len;
				skb.len = (unsigned)v_len;
				verdict = e->tc(&skb);
			}
			printf("V %d %d\nP ", verdict, v_len);
			hexout(v_pkt, v_len);
			printf("\n");
			for (struct vmap *m = vmaps; m->name; m++)
				for (struct vent *x = m->ents; x; x = x->next)
					if (x->live) {
						printf("M %s ", m->name);
						hexout(x->key, m->ks);
						printf(" ");
						hexout(x->val, m->vs);
						printf("\n");
					}
			for (struct vout *o = outs; o; o = o->next) {
				printf("O %s ", o->m->name);
				hexout(o->data, o->n);
				printf("\n");
			}
			printf("E\n");
			fflush(stdout);
			break;
		}
		}
	}
	return 0;
}
