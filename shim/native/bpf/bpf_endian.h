#include "../../bpf/bpf_endian.h"
