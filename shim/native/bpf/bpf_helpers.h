/* native build of the eBPF programs (differential self-test of the IR interpreter): same declarations as the IR shim;
 * the helpers are ordinary C functions defined in ../driver.c */
#include "../../bpf/bpf_helpers.h"
