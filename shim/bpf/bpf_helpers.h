/* Minimal stand-in for libbpf's <bpf/bpf_helpers.h>, used only to lower the repo bpf sources to LLVM IR for the
 * bngsym symbolic executor. Helpers are plain extern prototypes so that calls appear as named calls in the IR. */
#ifndef __VERIF_BPF_HELPERS_H__
#define __VERIF_BPF_HELPERS_H__

#include <linux/types.h>

#define SEC(name) __attribute__((section(name), used))

#define __uint(name, val) int (*name)[val]
#define __type(name, val) typeof(val) *name
#define __array(name, val) typeof(val) *name[]

#ifndef __always_inline
#define __always_inline inline __attribute__((always_inline))
#endif
#ifndef __noinline
#define __noinline __attribute__((noinline))
#endif
#ifndef __weak
#define __weak __attribute__((weak))
#endif
#ifndef NULL
#define NULL ((void *)0)
#endif
#ifndef offsetof
#define offsetof(TYPE, MEMBER) __builtin_offsetof(TYPE, MEMBER)
#endif
#ifndef barrier
#define barrier() asm volatile("" ::: "memory")
#endif
#ifndef likely
#define likely(x) __builtin_expect(!!(x), 1)
#endif
#ifndef unlikely
#define unlikely(x) __builtin_expect(!!(x), 0)
#endif

struct xdp_md;
struct __sk_buff;

extern void *bpf_map_lookup_elem(void *map, const void *key);
extern long bpf_map_update_elem(void *map, const void *key, const void *value, __u64 flags);
extern long bpf_map_delete_elem(void *map, const void *key);
extern __u64 bpf_ktime_get_ns(void);
extern long bpf_trace_printk(const char *fmt, __u32 fmt_size, ...);
extern __u32 bpf_get_smp_processor_id(void);
extern __u32 bpf_get_prandom_u32(void);
extern long bpf_perf_event_output(void *ctx, void *map, __u64 flags, void *data, __u64 size);
extern long bpf_xdp_adjust_tail(struct xdp_md *xdp_md, int delta);
extern long bpf_xdp_adjust_head(struct xdp_md *xdp_md, int delta);
extern long bpf_redirect(__u32 ifindex, __u64 flags);
extern long bpf_clone_redirect(struct __sk_buff *skb, __u32 ifindex, __u64 flags);
extern __s64 bpf_csum_diff(__be32 *from, __u32 from_size, __be32 *to, __u32 to_size, __wsum seed);
extern long bpf_l3_csum_replace(struct __sk_buff *skb, __u32 offset, __u64 from, __u64 to, __u64 size);
extern long bpf_l4_csum_replace(struct __sk_buff *skb, __u32 offset, __u64 from, __u64 to, __u64 flags);
extern long bpf_skb_store_bytes(struct __sk_buff *skb, __u32 offset, const void *from, __u32 len, __u64 flags);
extern long bpf_skb_load_bytes(const void *skb, __u32 offset, void *to, __u32 len);
extern void *bpf_ringbuf_reserve(void *ringbuf, __u64 size, __u64 flags);
extern void bpf_ringbuf_submit(void *data, __u64 flags);
extern void bpf_ringbuf_discard(void *data, __u64 flags);
extern long bpf_ringbuf_output(void *ringbuf, void *data, __u64 size, __u64 flags);

#define bpf_printk(fmt, ...) ({ static const char ____fmt[] = fmt; bpf_trace_printk(____fmt, sizeof(____fmt), ##__VA_ARGS__); })

#endif
