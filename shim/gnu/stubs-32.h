/* empty: only needed so that <linux/icmp.h> -> <gnu/stubs.h> resolves when targeting bpf (no __x86_64__) */
