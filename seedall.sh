#!/bin/bash
# runs every stored seed against the quick check of its property (apply, check, revert); prints one line per seed
cd "$(dirname "$0")"
for d in seeded/*/; do
  n=$(basename $d); id=${n%%-*}
  out=$(./seedtest.sh /verif/${d}patch.diff $id 2>&1)
  if echo "$out" | grep -q "^VIOLATION property=$id"; then r=CAUGHT; elif echo "$out" | grep -q "APPLY-FAILED"; then r=APPLY-FAILED; elif echo "$out" | grep -q "^INCONCLUSIVE"; then r=INCONCLUSIVE; else r=MISSED; fi
  echo "$n $r $(echo "$out" | grep -m1 'msg=' | sed 's/.*msg=//' | cut -c1-120)"
done
git -C /repo status --short | head -3
