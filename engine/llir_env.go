//go:build llir

package main

// Environment model of the eBPF helpers used by the programs under test: maps, clock, packet resizing, event output.

import (
	"fmt"
	"sort"
)

const (
	bpfMapHash           = 1
	bpfMapArray          = 2
	bpfMapPerfEventArray = 4
	bpfMapPercpuHash     = 5
	bpfMapPercpuArray    = 6
	bpfMapLruHash        = 9
	bpfMapLruPercpuHash  = 10
	bpfMapLpmTrie        = 11
	bpfMapRingbuf        = 27

	bpfAny     = 0
	bpfNoExist = 1
	bpfExist   = 2
)

type LLMapEntry struct {
	Key     []*Term
	Val     *LLObj
	Deleted bool // tombstone: the key is known to be absent on this path
}

type LLMap struct {
	Name             string
	KeySize, ValSize int
	MaxEntries       int
	Type             int
	Entries          []*LLMapEntry
	OnMiss           string // "null" (default) or "symbolic"
	PerCPU           bool
	// OnMissFn, when set, replaces OnMiss for hash-like and LPM maps: it returns the value bytes of an entry to create
	// for the looked-up key, or nil for "absent" (used by the concrete differential self-test).
	OnMissFn func(m *LLMap, key []*Term) []*Term
	// MaxSymbolic (0 = unlimited) bounds how many arbitrary entries OnMiss=="symbolic" may discover on one path: once
	// that many lookups have hit a fresh entry, further unknown keys are absent. (Bounded-map assumption that keeps
	// retry loops over lookups finite.)
	MaxSymbolic int
	nFresh      int
	nSymHits    int
}

type LLEvent struct {
	Map  string
	Kind string // "perf", "ringbuf"
	Data []*Term
}

type LLEnv struct {
	Maps          map[string]*LLMap
	Now           *Term // fixed clock; nil: fresh non-decreasing value per bpf_ktime_get_ns call
	Packet        *LLObj
	Events        []LLEvent
	UpdateMayFail bool  // bpf_map_update_elem may additionally fail with -1
	SkbLen        *Term // skb->len for tc programs (default: the packet length)
	// Choose, when set, resolves environment choices (ring buffer reservation, adjust_tail success, opaque LPM hit, ...)
	// deterministically instead of forking; tag identifies the choice.
	Choose func(tag string) bool
	// IfConversion selects how small triangles/diamonds below symbolic branches are handled: "" or "pure" (default):
	// side blocks without stores are executed under a guard and merged (phi -> ite) instead of forking; "full": also
	// side blocks with stores (conditional stores; fewer paths but much heavier solver queries); "off": always fork.
	// The environment variable VERIF_LLIR_SPEC sets the default.
	IfConversion string
	// Replay, when non-nil, makes the run concrete: every nondeterministic value the BPF front end would create
	// (map contents, clock, environment choices, uninitialised memory) is taken, in order, from a witness.
	Replay *LLReplay
	// Cover, when non-nil, records the executed basic blocks as "function:block".
	Cover map[string]bool
	// KtimeLog collects the values returned by bpf_ktime_get_ns on this path.
	KtimeLog []*Term
	lastKt   *Term // previous symbolic clock value (the clock is non-decreasing across runs with the same env)
}

type LLReplay struct {
	Vals []WitnessVal
	q    map[string][]WitnessVal
}

// fresh creates a nondeterministic value of the BPF environment. In replay mode it is the next witness value with
// the same tag (per-tag order; the global order may differ when the recorded run merged branches).
func (r *llRun) fresh(tag string, w int) *Term {
	rp := r.env.Replay
	if rp == nil {
		return r.in.fresh(tag, w)
	}
	if rp.q == nil {
		rp.q = map[string][]WitnessVal{}
		for _, v := range rp.Vals {
			rp.q[v.Tag] = append(rp.q[v.Tag], v)
		}
	}
	l := rp.q[tag]
	if len(l) == 0 {
		panic(unsupported(fmt.Sprintf("llir: replay diverged: no witness value left for %q", tag)))
	}
	rp.q[tag] = l[1:]
	if l[0].W != w {
		panic(unsupported(fmt.Sprintf("llir: replay diverged: witness value %q has width %d, run asks %d", tag, l[0].W, w)))
	}
	return r.in.tc.Const(l[0].V, w)
}

func (m *LLMap) hashLike() bool {
	switch m.Type {
	case bpfMapHash, bpfMapPercpuHash, bpfMapLruHash, bpfMapLruPercpuHash:
		return true
	}
	return false
}

func (m *LLMap) arrayLike() bool { return m.Type == bpfMapArray || m.Type == bpfMapPercpuArray }

// choice resolves an environment choice: a fork unless the environment dictates it.
func (r *llRun) choice(tag string) bool {
	if r.env.Choose != nil {
		return r.env.Choose(tag)
	}
	// a nondeterministic boolean that is part of the witness (not freshInternal: internal symbols are absent from the
	// solver models the engine evaluates conditions with)
	return r.in.decide(r.fresh(tag, 0))
}

func (r *llRun) ret64(v int64) LLVal { return LLVal{T: r.k(uint64(v), 64)} }

func (r *llRun) keyEq(a, b []*Term) *Term {
	tc := r.in.tc
	if len(a) != len(b) {
		r.fail("internal: key length mismatch")
	}
	res := tTrue
	// compare in words of up to 8 bytes
	for i := 0; i < len(a); i += 8 {
		j := min(i+8, len(a))
		wa, wb := a[j-1], b[j-1]
		for k := j - 2; k >= i; k-- {
			wa, wb = tc.Concat(wa, a[k]), tc.Concat(wb, b[k])
		}
		res = tc.And(res, tc.Eq(wa, wb))
		if res.IsFalse() {
			return res
		}
	}
	return res
}

func (r *llRun) newValObj(m *LLMap, bytes []*Term) *LLObj {
	m.nFresh++
	o := &LLObj{Name: fmt.Sprintf("%s.value#%d", m.Name, m.nFresh), Bytes: bytes}
	return o
}

func (r *llRun) freshValBytes(m *LLMap) []*Term {
	bs := make([]*Term, m.ValSize)
	for i := range bs {
		bs[i] = r.fresh(fmt.Sprintf("%s#%d.val[%d]", m.Name, m.nFresh+1, i), 8)
	}
	return bs
}

func (r *llRun) zeroBytes(n int) []*Term {
	bs := make([]*Term, n)
	for i := range bs {
		bs[i] = r.k(0, 8)
	}
	return bs
}

func ptrTo(o *LLObj, tc *TermCtx) LLVal { return LLVal{T: tc.Const(0, 64), Obj: o} }

func (r *llRun) null() LLVal { return LLVal{T: r.k(0, 64)} }

func (r *llRun) mapArg(v LLVal, helper string) *LLMap {
	if v.Obj == nil || v.Obj.Map == nil || !(v.T.IsConst() && v.T.V == 0) {
		r.fail("%s: first argument is not the address of a map", helper)
	}
	return v.Obj.Map
}

func (r *llRun) u32le(b []*Term) *Term {
	tc := r.in.tc
	return tc.Concat(tc.Concat(tc.Concat(b[3], b[2]), b[1]), b[0])
}

// findEntry walks the known entries (live and tombstones); each comparison is a decision.
func (r *llRun) findEntry(m *LLMap, key []*Term) *LLMapEntry {
	for _, e := range m.Entries {
		if r.in.decide(r.keyEq(e.Key, key)) {
			return e
		}
	}
	return nil
}

func (r *llRun) mapLookup(m *LLMap, key []*Term) LLVal {
	in, tc := r.in, r.in.tc
	switch {
	case m.arrayLike():
		if m.KeySize != 4 {
			r.fail("array map %s with key size %d", m.Name, m.KeySize)
		}
		idx := r.u32le(key)
		for _, e := range m.Entries {
			if in.decide(r.keyEq(e.Key, key)) {
				return ptrTo(e.Val, tc)
			}
		}
		if !in.decide(tc.Cmp(OpULt, idx, r.k(uint64(m.MaxEntries), 32))) {
			return r.null()
		}
		var bs []*Term
		if m.OnMiss == "symbolic" {
			bs = r.freshValBytes(m)
		} else {
			bs = r.zeroBytes(m.ValSize)
		}
		e := &LLMapEntry{Key: key, Val: r.newValObj(m, bs)}
		m.Entries = append(m.Entries, e)
		return ptrTo(e.Val, tc)
	case m.hashLike():
		if e := r.findEntry(m, key); e != nil {
			if e.Deleted {
				return r.null()
			}
			return ptrTo(e.Val, tc)
		}
		return r.onMiss(m, key)
	case m.Type == bpfMapLpmTrie:
		if m.KeySize < 5 {
			r.fail("LPM trie %s with key size %d", m.Name, m.KeySize)
		}
		if len(m.Entries) == 0 && m.OnMissFn == nil {
			// opaque trie: arbitrary outcome
			if m.OnMiss == "symbolic" && r.choice("lpm_hit."+m.Name) {
				return ptrTo(r.newValObj(m, r.freshValBytes(m)), tc)
			}
			return r.null()
		}
		return r.lpmLookup(m, key)
	}
	r.fail("bpf_map_lookup_elem on map %s of type %d", m.Name, m.Type)
	return LLVal{}
}

func (r *llRun) onMiss(m *LLMap, key []*Term) LLVal {
	tc := r.in.tc
	if m.OnMissFn != nil {
		if bs := m.OnMissFn(m, key); bs != nil {
			if len(bs) != m.ValSize {
				r.fail("OnMissFn of %s returned %d bytes", m.Name, len(bs))
			}
			e := &LLMapEntry{Key: key, Val: r.newValObj(m, bs)}
			m.Entries = append(m.Entries, e)
			return ptrTo(e.Val, tc)
		}
		m.Entries = append(m.Entries, &LLMapEntry{Key: key, Deleted: true})
		return r.null()
	}
	if m.OnMiss != "symbolic" {
		return r.null()
	}
	if (m.MaxSymbolic == 0 || m.nSymHits < m.MaxSymbolic) && r.choice("hit."+m.Name) {
		m.nSymHits++
		e := &LLMapEntry{Key: key, Val: r.newValObj(m, r.freshValBytes(m))}
		m.Entries = append(m.Entries, e)
		return ptrTo(e.Val, tc)
	}
	m.Entries = append(m.Entries, &LLMapEntry{Key: key, Deleted: true})
	return r.null()
}

// lpmLookup: longest prefix match over the entries; key = u32 prefixlen (host order) followed by the data bytes,
// compared from the most significant bit of the first data byte.
func (r *llRun) lpmLookup(m *LLMap, key []*Term) LLVal {
	in, tc := r.in, r.in.tc
	type cand struct {
		e    *LLMapEntry
		plen int
	}
	var cs []cand
	for _, e := range m.Entries {
		if e.Deleted {
			continue
		}
		pl := int(in.concretize(r.u32le(e.Key[:4]), "LPM entry prefix length"))
		if pl > 8*(m.KeySize-4) {
			r.fail("LPM entry of %s with prefix length %d", m.Name, pl)
		}
		cs = append(cs, cand{e, pl})
	}
	sort.SliceStable(cs, func(i, j int) bool { return cs[i].plen > cs[j].plen })
	kpl := r.u32le(key[:4])
	for _, c := range cs {
		cond := tc.Cmp(OpULe, r.k(uint64(c.plen), 32), kpl)
		for bit := 0; bit < c.plen && !cond.IsFalse(); {
			byteIx := 4 + bit/8
			nb := min(8-bit%8, c.plen-bit) // bits of this byte, from its msb side (bit%8 is 0 except never: whole bytes first)
			hi := 7 - bit%8
			lo := hi - nb + 1
			cond = tc.And(cond, tc.Eq(tc.Extract(c.e.Key[byteIx], hi, lo), tc.Extract(key[byteIx], hi, lo)))
			bit += nb
		}
		if in.decide(cond) {
			return ptrTo(c.e.Val, tc)
		}
	}
	if m.OnMissFn != nil {
		if bs := m.OnMissFn(m, key); bs != nil {
			e := &LLMapEntry{Key: key, Val: r.newValObj(m, bs)}
			m.Entries = append(m.Entries, e)
			return ptrTo(e.Val, tc)
		}
	}
	return r.null()
}

func (r *llRun) mapUpdate(m *LLMap, key, val []*Term, flags uint64) LLVal {
	in := r.in
	if r.env.UpdateMayFail && r.choice("update_fails."+m.Name) {
		return r.ret64(-1)
	}
	if flags > 2 {
		return r.ret64(-22) // EINVAL (BPF_F_LOCK etc. are not modelled)
	}
	switch {
	case m.arrayLike():
		idx := r.u32le(key)
		if !in.decide(in.tc.Cmp(OpULt, idx, r.k(uint64(m.MaxEntries), 32))) {
			return r.ret64(-7) // E2BIG
		}
		if flags == bpfNoExist {
			return r.ret64(-17) // EEXIST: array elements always exist
		}
		for _, e := range m.Entries {
			if in.decide(r.keyEq(e.Key, key)) {
				r.setVal(e.Val, val)
				return r.ret64(0)
			}
		}
		m.Entries = append(m.Entries, &LLMapEntry{Key: key, Val: r.newValObj(m, val)})
		return r.ret64(0)
	case m.hashLike() || m.Type == bpfMapLpmTrie:
		e := r.findEntry(m, key)
		switch {
		case e != nil && !e.Deleted:
			if flags == bpfNoExist {
				return r.ret64(-17)
			}
			r.setVal(e.Val, val)
			return r.ret64(0)
		case e != nil:
			if flags == bpfExist {
				return r.ret64(-2)
			}
			e.Deleted = false
			e.Val = r.newValObj(m, val)
			return r.ret64(0)
		}
		// unknown key
		if m.OnMiss == "symbolic" && m.OnMissFn == nil && flags != bpfAny {
			exists := r.choice("exists." + m.Name)
			switch {
			case flags == bpfNoExist && exists:
				m.Entries = append(m.Entries, &LLMapEntry{Key: key, Val: r.newValObj(m, r.freshValBytes(m))})
				return r.ret64(-17)
			case flags == bpfExist && !exists:
				m.Entries = append(m.Entries, &LLMapEntry{Key: key, Deleted: true})
				return r.ret64(-2)
			}
		} else if m.OnMissFn != nil {
			// lazily sampled concrete map: decide whether the key was present initially
			if bs := m.OnMissFn(m, key); bs != nil {
				ne := &LLMapEntry{Key: key, Val: r.newValObj(m, bs)}
				m.Entries = append(m.Entries, ne)
				if flags == bpfNoExist {
					return r.ret64(-17)
				}
				r.setVal(ne.Val, val)
				return r.ret64(0)
			}
			if flags == bpfExist {
				m.Entries = append(m.Entries, &LLMapEntry{Key: key, Deleted: true})
				return r.ret64(-2)
			}
		} else if flags == bpfExist {
			return r.ret64(-2)
		}
		m.Entries = append(m.Entries, &LLMapEntry{Key: key, Val: r.newValObj(m, val)})
		return r.ret64(0)
	}
	r.fail("bpf_map_update_elem on map %s of type %d", m.Name, m.Type)
	return LLVal{}
}

func (r *llRun) setVal(o *LLObj, val []*Term) {
	copy(o.Bytes, val)
	o.ptrAt = nil
}

func (r *llRun) mapDelete(m *LLMap, key []*Term) LLVal {
	switch {
	case m.arrayLike():
		return r.ret64(-22)
	case m.hashLike() || m.Type == bpfMapLpmTrie:
		e := r.findEntry(m, key)
		switch {
		case e != nil && !e.Deleted:
			e.Deleted = true
			return r.ret64(0)
		case e != nil:
			return r.ret64(-2)
		}
		if m.OnMissFn != nil {
			present := m.OnMissFn(m, key) != nil
			m.Entries = append(m.Entries, &LLMapEntry{Key: key, Deleted: true})
			if present {
				return r.ret64(0)
			}
			return r.ret64(-2)
		}
		if m.OnMiss == "symbolic" {
			present := r.choice("exists." + m.Name)
			m.Entries = append(m.Entries, &LLMapEntry{Key: key, Deleted: true})
			if present {
				return r.ret64(0)
			}
		}
		return r.ret64(-2)
	}
	r.fail("bpf_map_delete_elem on map %s of type %d", m.Name, m.Type)
	return LLVal{}
}

func (r *llRun) setDataEnd() {
	tc := r.in.tc
	off := skbOffDataEnd
	if r.kind == "xdp" {
		off = xdpOffDataEnd
	}
	r.ctx.ptrAt[off] = llPtrSlot{obj: r.env.Packet, off: tc.Trunc(r.env.Packet.Len, 32), size: 4}
	for j := 0; j < 4; j++ {
		r.ctx.Bytes[off+j] = llPtrByte
	}
}

func (r *llRun) helper(name string, a []LLVal, ins *LLInstr) LLVal {
	in, tc := r.in, r.in.tc
	need := func(n int) {
		if len(a) != n {
			r.fail("%s called with %d arguments", name, len(a))
		}
	}
	conc := func(v LLVal, what string) uint64 {
		return in.concretize(r.plainInt(v, name+" "+what), name+" "+what)
	}
	switch name {
	case "bpf_map_lookup_elem":
		need(2)
		m := r.mapArg(a[0], name)
		return r.mapLookup(m, r.readBytes(a[1], m.KeySize))
	case "bpf_map_update_elem":
		need(4)
		m := r.mapArg(a[0], name)
		key := r.readBytes(a[1], m.KeySize)
		val := r.readBytes(a[2], m.ValSize)
		return r.mapUpdate(m, key, val, conc(a[3], "flags"))
	case "bpf_map_delete_elem":
		need(2)
		m := r.mapArg(a[0], name)
		return r.mapDelete(m, r.readBytes(a[1], m.KeySize))
	case "bpf_ktime_get_ns":
		need(0)
		var t *Term
		if r.env.Now != nil {
			t = r.env.Now
		} else {
			t = r.fresh("ktime", 64)
			if r.env.lastKt != nil {
				in.assume(tc.Cmp(OpULe, r.env.lastKt, t))
			}
			r.env.lastKt = t
		}
		r.env.KtimeLog = append(r.env.KtimeLog, t)
		return LLVal{T: t}
	case "bpf_xdp_adjust_tail":
		need(2)
		if r.kind != "xdp" || a[0].Obj != r.ctx {
			r.fail("bpf_xdp_adjust_tail outside an XDP context")
		}
		pkt := r.env.Packet
		delta := tc.SExt(r.plainInt(a[1], "delta"), 64)
		newLen := tc.Bin(OpAdd, pkt.Len, delta)
		ok := tc.And(tc.Cmp(OpSLe, r.k(14, 64), newLen), tc.Cmp(OpSLe, newLen, r.k(uint64(len(pkt.Bytes)), 64)))
		if !in.decide(ok) {
			return r.ret64(-1)
		}
		if !r.choice("adjust_tail_ok") {
			return r.ret64(-1)
		}
		pkt.Len = newLen
		pkt.lenFacts = nil
		r.setDataEnd()
		return r.ret64(0)
	case "bpf_perf_event_output":
		need(5)
		m := r.mapArg(a[1], name)
		if m.Type != bpfMapPerfEventArray {
			r.fail("bpf_perf_event_output on map %s of type %d", m.Name, m.Type)
		}
		n := int(conc(a[4], "size"))
		r.env.Events = append(r.env.Events, LLEvent{Map: m.Name, Kind: "perf", Data: r.readBytes(a[3], n)})
		return r.ret64(0)
	case "bpf_ringbuf_reserve":
		need(3)
		m := r.mapArg(a[0], name)
		if m.Type != bpfMapRingbuf {
			r.fail("bpf_ringbuf_reserve on map %s of type %d", m.Name, m.Type)
		}
		n := int(conc(a[1], "size"))
		if !r.choice("ringbuf_reserve_ok") {
			return r.null()
		}
		m.nFresh++
		name := fmt.Sprintf("%s.record#%d", m.Name, m.nFresh)
		o := r.newObj(name, n, "uninit."+name)
		o.Map = nil
		r.ringRecs = append(r.ringRecs, llRingRec{obj: o, m: m})
		return ptrTo(o, tc)
	case "bpf_ringbuf_submit", "bpf_ringbuf_discard":
		need(2)
		idx := -1
		for i, rr := range r.ringRecs {
			if rr.obj == a[0].Obj && a[0].T.IsConst() && a[0].T.V == 0 {
				idx = i
			}
		}
		if idx < 0 {
			r.violation("null", name+" of a pointer that is not a reserved ring buffer record")
		}
		rr := r.ringRecs[idx]
		r.ringRecs = append(r.ringRecs[:idx], r.ringRecs[idx+1:]...)
		if name == "bpf_ringbuf_submit" {
			data := make([]*Term, len(rr.obj.Bytes))
			for i := range data {
				data[i] = r.byteAt(rr.obj, i)
			}
			r.env.Events = append(r.env.Events, LLEvent{Map: rr.m.Name, Kind: "ringbuf", Data: data})
		}
		return LLVal{}
	case "bpf_ringbuf_output":
		need(4)
		m := r.mapArg(a[0], name)
		n := int(conc(a[2], "size"))
		if !r.choice("ringbuf_output_ok") {
			return r.ret64(-11) // EAGAIN
		}
		r.env.Events = append(r.env.Events, LLEvent{Map: m.Name, Kind: "ringbuf", Data: r.readBytes(a[1], n)})
		return r.ret64(0)
	case "bpf_trace_printk":
		return r.ret64(0)
	case "bpf_get_smp_processor_id":
		return LLVal{T: r.k(0, 32)}
	case "bpf_get_prandom_u32":
		return LLVal{T: r.fresh("prandom", 32)}
	case "bpf_csum_diff":
		need(5)
		fromN, toN := int(conc(a[1], "from_size")), int(conc(a[3], "to_size"))
		if fromN%4 != 0 || toN%4 != 0 {
			return r.ret64(-22)
		}
		// one's-complement sum (32-bit, end-around carry) of seed, ~from words and to words
		sum := tc.ZExt(r.plainInt(a[4], "seed"), 64)
		add := func(bs []*Term, neg bool) {
			for i := 0; i+3 < len(bs); i += 4 {
				w := r.u32le(bs[i : i+4])
				if neg {
					w = tc.BNot(w)
				}
				sum = tc.Bin(OpAdd, sum, tc.ZExt(w, 64))
			}
		}
		add(r.readBytes(a[0], fromN), true)
		add(r.readBytes(a[2], toN), false)
		for i := 0; i < 2; i++ {
			sum = tc.Bin(OpAdd, tc.Bin(OpBAnd, sum, r.k(0xffffffff, 64)), tc.Bin(OpLShr, sum, r.k(32, 64)))
		}
		return LLVal{T: sum}
	case "bpf_ct_lookup_tcp", "bpf_ct_lookup_udp", "bpf_skb_ct_lookup", "bpf_xdp_ct_lookup":
		return r.null()
	}
	r.fail("eBPF helper %s is not modelled", name)
	return LLVal{}
}

type llRingRec struct {
	obj *LLObj
	m   *LLMap
}

// ---- glue for Go-harness stubs ----

// PacketFromSlice turns a []byte value of the go/ssa interpreter into a packet object: the bytes from the slice's offset
// to the end of its backing array become the buffer (capacity), the slice length becomes the packet length. The bytes
// are copied (the BPF program does not write through to the Go slice; use SliceFromPacket for the result).
func (in *Interp) PacketFromSlice(name string, s SliceV) *LLObj {
	off := int(in.concretize(s.Off, "packet slice offset"))
	if off > len(s.Arr) {
		panic(unsupported("llir: packet slice offset beyond its backing array"))
	}
	o := &LLObj{Name: name, Len: s.N}
	for _, v := range s.Arr[off:] {
		t, ok := v.(*Term)
		if !ok || t.W != 8 {
			panic(unsupported("llir: packet slice does not hold bytes"))
		}
		o.Bytes = append(o.Bytes, t)
	}
	return o
}

// SliceFromPacket returns the packet contents (after a run) as a []byte value with a backing array of the packet's
// capacity and the packet's (possibly symbolic) length.
func (in *Interp) SliceFromPacket(p *LLObj) SliceV {
	arr := make([]Value, len(p.Bytes))
	for i, b := range p.Bytes {
		if b == nil || b == llPtrByte {
			panic(unsupported("llir: packet holds a non-integer byte"))
		}
		arr[i] = b
	}
	n := p.Len
	if n == nil {
		n = in.k64(int64(len(arr)))
	}
	return SliceV{Arr: arr, Off: in.k64(0), N: n, C: in.k64(int64(len(arr)))}
}

// NewMapEntry builds an entry from byte terms (helper for harness stubs that populate LLMap.Entries).
func (in *Interp) NewMapEntry(m *LLMap, key, val []*Term) *LLMapEntry {
	if len(key) != m.KeySize || len(val) != m.ValSize {
		panic(unsupported(fmt.Sprintf("llir: entry for map %s needs %d key and %d value bytes", m.Name, m.KeySize, m.ValSize)))
	}
	m.nFresh++
	return &LLMapEntry{Key: key, Val: &LLObj{Name: fmt.Sprintf("%s.value#%d", m.Name, m.nFresh), Bytes: val}}
}
