package main

// Path exploration: forking by re-execution along recorded decision prefixes.

import (
	"fmt"
	"os"
	"regexp"
	"strings"
	"sync"
)

type Decision struct {
	B      bool   `json:"b"`
	V      uint64 `json:"v,omitempty"`
	HasV   bool   `json:"hv,omitempty"`
	Forced bool   `json:"f,omitempty"`
}

type NDRec struct {
	Tag  string
	W    int
	T    *Term
	Kind string // "val" or "pick"
	Pick int
}

type Violation struct {
	Harness string            `json:"harness"`
	Kind    string            `json:"kind"` // assert | panic | hang | unlocked
	Msg     string            `json:"msg"`
	Site    string            `json:"site"`
	Tags    []string          `json:"tags"`
	Stack   []string          `json:"stack,omitempty"`
	ND      []WitnessVal      `json:"nd"`
	Model   map[string]uint64 `json:"-"`
	Key     string            `json:"key"`
	Replay  string            `json:"replay,omitempty"`
	Status  string            `json:"status,omitempty"`
}

type WitnessVal struct {
	Tag string `json:"tag"`
	W   int    `json:"w"`
	V   uint64 `json:"v"`
}

type PathEndKind int

const (
	EndNormal PathEndKind = iota
	EndInfeasible
	EndAssumeFalse
	EndUnsupported
	EndUnwind
	EndSteps
	EndBlocked
	EndViolation
)

// pathEnd is thrown (as a Go panic) to abandon the current path.
type pathEnd struct {
	Kind PathEndKind
	Msg  string
}

func unsupported(what string) pathEnd { return pathEnd{EndUnsupported, what} }

type PathState struct {
	prefix     []Decision
	pos        int
	decisions  []Decision
	pc         []*Term
	nd         []NDRec
	reached    map[string]bool
	tags       []string
	steps      int
	model      map[string]uint64 // model of pc (valid if modelOK)
	modelOK    bool
	inexact    bool // some feasibility answer was unknown
	violations []*Violation
	forks      [][]Decision
	ndCounter  int
	unknowns   []string
	observe    []string
	subst      map[*Term]*Term // facts implied by pc: term -> constant
	simpMemo   map[*Term]*Term
}

// addFact records what the new path constraint pins down, for syntactic folding of later conditions.
func (in *Interp) addFact(c *Term) {
	p := in.path
	if p.subst == nil {
		p.subst = map[*Term]*Term{}
	}
	switch {
	case c.IsConst():
		return
	case c.Op == OpNot:
		p.subst[c.A[0]] = tFalse
		if o := c.A[0]; o.Op == OpOr {
			in.addFact(in.tc.Not(o.A[0]))
			in.addFact(in.tc.Not(o.A[1]))
		}
	case c.Op == OpAnd:
		p.subst[c] = tTrue
		in.addFact(c.A[0])
		in.addFact(c.A[1])
	default:
		p.subst[c] = tTrue
		if c.Op == OpEq && c.A[1].IsConst() && !c.A[0].IsConst() {
			p.subst[c.A[0]] = c.A[1]
		}
	}
	p.simpMemo = nil
}

// simp rewrites t under the facts of the current path (sound: every fact is implied by pc).
func (in *Interp) simp(t *Term) *Term {
	p := in.path
	if len(p.subst) == 0 || t.IsConst() {
		return t
	}
	if p.simpMemo == nil {
		p.simpMemo = map[*Term]*Term{}
	}
	return in.simpRec(t)
}

func (in *Interp) simpRec(t *Term) *Term {
	p := in.path
	if t.Op == OpConst {
		return t
	}
	if r, ok := p.subst[t]; ok {
		return r
	}
	if t.Op == OpVar {
		return t
	}
	if r, ok := p.simpMemo[t]; ok {
		return r
	}
	changed := false
	args := make([]*Term, len(t.A))
	for i, a := range t.A {
		args[i] = in.simpRec(a)
		if args[i] != a {
			changed = true
		}
	}
	r := t
	if changed {
		r = in.tc.Rebuild(t, args)
		if r2, ok := p.subst[r]; ok {
			r = r2
		}
	}
	p.simpMemo[t] = r
	return r
}

var tagRe = regexp.MustCompile(`[^A-Za-z0-9_]`)

func (in *Interp) fresh(tag string, w int) *Term {
	p := in.path
	p.ndCounter++
	name := fmt.Sprintf("nd%d_%s", p.ndCounter, tagRe.ReplaceAllString(tag, "_"))
	t := in.tc.Var(name, w)
	p.nd = append(p.nd, NDRec{Tag: tag, W: w, T: t, Kind: "val"})
	return t
}

// internal fresh symbols that are not part of the replayable nd sequence
func (in *Interp) freshInternal(tag string, w int) *Term {
	p := in.path
	p.ndCounter++
	name := fmt.Sprintf("in%d_%s", p.ndCounter, tagRe.ReplaceAllString(tag, "_"))
	in.usedInternal = true
	return in.tc.Var(name, w)
}

func (in *Interp) freshBool(tag string) *Term { return in.freshInternal(tag, 0) }

// ndVars lists every variable of the path (nd values and engine-internal symbols): a model used for syntactic
// feasibility shortcuts must assign all of them.
func (in *Interp) ndVars() []*Term { return in.tc.vars }

func (in *Interp) evalModel(c *Term) (uint64, bool) {
	p := in.path
	if !p.modelOK {
		return 0, false
	}
	return Eval(c, p.model, map[*Term]uint64{})
}

func (in *Interp) addPC(c *Term) {
	p := in.path
	if c.IsTrue() {
		return
	}
	p.pc = append(p.pc, c)
	in.solver.Assert(c)
	in.addFact(c)
	if p.modelOK {
		v, ok := in.evalModel(c)
		if !ok || v != 1 {
			p.modelOK = false
		}
	}
}

func (in *Interp) checkSat(extra *Term) SatResult {
	res, model, msg := in.solver.Check(extra, true, in.ndVars())
	in.queries++
	if res == Unknown {
		in.path.unknowns = append(in.path.unknowns, msg)
		if d := os.Getenv("VERIF_DUMP_VIOL"); d != "" && extra != nil {
			in.solver.DumpQuery(extra, fmt.Sprintf("%s/unknown-%d-%d.smt2", d, len(in.path.decisions), in.queries))
		}
	}
	if res == Sat {
		in.lastModel = model
	}
	return res
}

// decide forks on a boolean term. Returns the branch taken on this path.
var (
	forkSitesOn = os.Getenv("VERIF_FORKSITES") != ""
	forkSitesMu sync.Mutex
	forkSites   = map[string]int{}
)

func (in *Interp) decide(c *Term) bool {
	if c.W != 0 {
		panic("decide on non-bool")
	}
	if c.IsConst() {
		return c.V == 1
	}
	c = in.simp(c)
	if c.IsConst() {
		return c.V == 1
	}
	p := in.path
	if p.pos < len(p.prefix) {
		d := p.prefix[p.pos]
		p.pos++
		p.decisions = append(p.decisions, d)
		if d.B {
			in.addPC(c)
		} else {
			in.addPC(in.tc.Not(c))
		}
		return d.B
	}
	nc := in.tc.Not(c)
	tFeas, fFeas := Unknown, Unknown
	var tModel, fModel map[string]uint64
	if v, ok := in.evalModel(c); ok {
		if v == 1 {
			tFeas, tModel = Sat, p.model
		} else {
			fFeas, fModel = Sat, p.model
		}
	}
	if tFeas != Sat {
		tFeas = in.checkSat(c)
		if tFeas == Sat {
			tModel = in.lastModel
		}
	}
	if tFeas == Unsat {
		// pc is satisfiable by invariant, so ¬c is feasible
		fFeas = Sat
	} else if fFeas != Sat {
		fFeas = in.checkSat(nc)
		if fFeas == Sat {
			fModel = in.lastModel
		}
	}
	if tFeas == Unknown || fFeas == Unknown {
		p.inexact = true
	}
	switch {
	case tFeas == Unsat && fFeas == Unsat:
		panic(pathEnd{EndInfeasible, "both branches infeasible"})
	case tFeas == Unsat:
		p.decisions = append(p.decisions, Decision{B: false, Forced: true})
		p.pos++
		in.addPC(nc)
		if fModel != nil {
			p.model, p.modelOK = fModel, true
		}
		return false
	case fFeas == Unsat:
		p.decisions = append(p.decisions, Decision{B: true, Forced: true})
		p.pos++
		in.addPC(c)
		if tModel != nil {
			p.model, p.modelOK = tModel, true
		}
		return true
	}
	// both feasible (or unknown): fork
	if forkSitesOn {
		forkSitesMu.Lock()
		st := in.stackTrace()
		k := "?"
		if len(st) > 0 {
			k = st[0]
		}
		if len(st) > 3 {
			k += " <- " + st[1] + " <- " + st[2] + " <- " + st[3]
		}
		forkSites[k]++
		forkSitesMu.Unlock()
	}
	alt := append(append([]Decision(nil), p.decisions...), Decision{B: false})
	p.forks = append(p.forks, alt)
	p.decisions = append(p.decisions, Decision{B: true})
	p.pos++
	in.addPC(c)
	if tModel != nil {
		p.model, p.modelOK = tModel, true
	}
	return true
}

// pick forks n ways on a control choice and returns the index chosen on this path.
func (in *Interp) pick(tag string, n int) int {
	p := in.path
	if n <= 0 {
		panic(pathEnd{EndAssumeFalse, "pick(0)"})
	}
	var choice int
	if p.pos < len(p.prefix) {
		d := p.prefix[p.pos]
		choice = int(d.V)
		p.decisions = append(p.decisions, d)
		p.pos++
	} else {
		for k := n - 1; k >= 1; k-- {
			alt := append(append([]Decision(nil), p.decisions...), Decision{HasV: true, V: uint64(k)})
			p.forks = append(p.forks, alt)
		}
		p.decisions = append(p.decisions, Decision{HasV: true, V: 0})
		p.pos++
		choice = 0
	}
	p.nd = append(p.nd, NDRec{Tag: tag, Kind: "pick", Pick: choice})
	return choice
}

// concretize returns a concrete value for t, forking over all feasible values.
func (in *Interp) concretize(t *Term, why string) uint64 {
	if t.IsConst() {
		return t.V
	}
	p := in.path
	for iter := 0; ; iter++ {
		if iter > in.cfg.MaxConcretize {
			panic(pathEnd{EndUnwind, "concretize: too many values for " + why})
		}
		if p.pos < len(p.prefix) {
			d := p.prefix[p.pos]
			p.pos++
			p.decisions = append(p.decisions, d)
			eq := in.tc.Eq(t, in.tc.Const(d.V, t.W))
			if d.B {
				in.addPC(eq)
				return d.V
			}
			in.addPC(in.tc.Not(eq))
			continue
		}
		var v uint64
		if mv, ok := in.evalModel(t); ok {
			v = mv
		} else {
			r := in.checkSat(nil)
			if r != Sat {
				panic(pathEnd{EndInfeasible, "concretize: pc " + r.String()})
			}
			p.model, p.modelOK = in.lastModel, true
			mv, ok := in.evalModel(t)
			if !ok {
				panic(unsupported("concretize over UF term"))
			}
			v = mv
		}
		eq := in.tc.Eq(t, in.tc.Const(v, t.W))
		// is another value feasible?
		other := in.checkSat(in.tc.Not(eq))
		if other != Unsat {
			alt := append(append([]Decision(nil), p.decisions...), Decision{B: false, HasV: true, V: v})
			p.forks = append(p.forks, alt)
			if other == Unknown {
				p.inexact = true
			}
		}
		p.decisions = append(p.decisions, Decision{B: true, HasV: true, V: v, Forced: other == Unsat})
		p.pos++
		in.addPC(eq)
		return v
	}
}

func (in *Interp) assume(c *Term) {
	if c.IsTrue() {
		return
	}
	c = in.simp(c)
	if c.IsTrue() {
		return
	}
	if c.IsFalse() {
		panic(pathEnd{EndAssumeFalse, "assume(false)"})
	}
	if v, ok := in.evalModel(c); ok && v == 1 {
		in.addPC(c)
		return
	}
	r := in.checkSat(c)
	if r == Unsat {
		panic(pathEnd{EndAssumeFalse, "assumption unsatisfiable"})
	}
	if r == Unknown {
		in.path.inexact = true
	}
	in.addPC(c)
	if r == Sat {
		in.path.model, in.path.modelOK = in.lastModel, true
	}
}

// definitelyFeasible is the test used before a violation is reported: only a path condition the solver has shown
// satisfiable counts (incremental solver, then one-shot solvers with a longer limit). "unknown" makes the run
// inconclusive instead of producing a violation on a path that may not exist.
func (in *Interp) definitelyFeasible() bool {
	if in.path.modelOK || len(in.path.pc) == 0 {
		return in.feasible()
	}
	r := in.checkSat(nil)
	if r == Sat {
		in.path.model, in.path.modelOK = in.lastModel, true
		return true
	}
	if r == Unknown {
		r = in.solver.Resolve(in.tc.Bool(true), 120)
		if r == Sat {
			return true
		}
		if r == Unknown {
			in.path.inexact = true
			in.path.unknowns = append(in.path.unknowns, "feasibility of a violating path: solver unknown")
			in.unknownAsserts++
		}
	}
	return false
}

// feasible reports whether the current path condition is satisfiable.
func (in *Interp) feasible() bool {
	if in.path.modelOK {
		return true
	}
	if len(in.path.pc) == 0 {
		in.path.model, in.path.modelOK = map[string]uint64{}, true
		return true
	}
	r := in.checkSat(nil)
	if r == Sat {
		in.path.model, in.path.modelOK = in.lastModel, true
	}
	return r != Unsat
}

func (in *Interp) witness(model map[string]uint64) []WitnessVal {
	var ws []WitnessVal
	for _, r := range in.path.nd {
		if r.Kind == "pick" {
			ws = append(ws, WitnessVal{Tag: r.Tag, W: -1, V: uint64(r.Pick)})
			continue
		}
		ws = append(ws, WitnessVal{Tag: r.Tag, W: r.T.W, V: model[r.T.Name]})
	}
	return ws
}

// modelSatisfies re-evaluates the path condition (and extra) under a solver model; terms with uninterpreted functions
// cannot be evaluated and count as satisfied. Guards against solver/model-extraction errors before anything is reported.
func (in *Interp) modelSatisfies(model map[string]uint64, extra *Term) bool {
	memo := map[*Term]uint64{}
	chk := func(t *Term) bool {
		v, ok := Eval(t, model, memo)
		return !ok || v == 1
	}
	for _, c := range in.path.pc {
		if !chk(c) {
			return false
		}
	}
	return extra == nil || chk(extra)
}

func (in *Interp) report(kind, msg, site string, model map[string]uint64) {
	p := in.path
	v := &Violation{Harness: in.harness, Kind: kind, Msg: msg, Site: site, Tags: append([]string(nil), p.tags...),
		ND: in.witness(model), Model: model, Stack: in.stackTrace()}
	v.Key = violationKey(v)
	p.violations = append(p.violations, v)
}

func violationKey(v *Violation) string {
	return fmt.Sprintf("%s|%s|%s|%s|%s", v.Harness, v.Kind, v.Site, normMsg(v.Msg), strings.Join(v.Tags, ","))
}

var numRe = regexp.MustCompile(`[0-9]+`)

func normMsg(m string) string { return numRe.ReplaceAllString(m, "N") }

// assertTerm checks a property; a counterexample is recorded and the path continues under the assertion.
func (in *Interp) assertTerm(c *Term, msg, site string) {
	c = in.simp(c)
	if c.IsTrue() {
		return
	}
	nc := in.tc.Not(c)
	if c.IsFalse() {
		if in.definitelyFeasible() {
			in.ensureModel()
			in.report("assert", msg, site, in.path.model)
			panic(pathEnd{EndViolation, msg})
		}
		panic(pathEnd{EndInfeasible, "assertion fails only on an infeasible (or undecided) path: " + msg})
	}
	if v, ok := in.evalModel(nc); ok && v == 1 {
		in.report("assert", msg, site, in.path.model)
	} else {
		r := in.checkSat(nc)
		if r == Sat && !in.modelSatisfies(in.lastModel, nc) {
			in.path.unknowns = append(in.path.unknowns, "assert "+msg+": solver returned a model that does not satisfy the query (discarded)")
			r = Unknown
		}
		switch r {
		case Sat:
			if d := os.Getenv("VERIF_DUMP_VIOL"); d != "" {
				in.solver.DumpQuery(nc, fmt.Sprintf("%s/viol-%d.smt2", d, len(in.path.decisions)))
			}
			in.report("assert", msg, site, in.lastModel)
		case Unknown:
			// second opinion from fresh one-shot solvers with a longer limit
			switch in.solver.Resolve(nc, 120) {
			case Unsat:
				in.resolved++
			case Sat:
				// take the model from the incremental solver if it can produce one now; otherwise report without values
				if r2 := in.checkSat(nc); r2 == Sat {
					in.report("assert", msg, site, in.lastModel)
				} else {
					in.report("assert", msg+" (counterexample found by one-shot solver; no model values)", site, map[string]uint64{})
				}
			default:
				in.path.inexact = true
				in.path.unknowns = append(in.path.unknowns, "assert "+msg+": solver unknown")
				in.unknownAsserts++
			}
		}
	}
	in.assume(c)
}

func (in *Interp) ensureModel() {
	if !in.path.modelOK {
		in.feasible()
	}
	if in.path.model == nil {
		in.path.model = map[string]uint64{}
	}
}
