package main

func replayNative(ps *PropertySpec, v *Violation, wpath string, results []*HarnessResult) string {
	return "not-replayed"
}
