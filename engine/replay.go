package main

// Native replay: the witness values are fed to the same harness source compiled into the real package
// (go test -overlay); a violation is reported only if the native run fails the same way.

import (
	"context"
	"encoding/json"
	"fmt"
	"os"
	"os/exec"
	"path/filepath"
	"strings"
	"time"
)

const replayTestSrc = `//go:build verif

package PKGNAME

import (
	"fmt"
	"os"
	"testing"
)

func TestVerifReplay(t *testing.T) {
	name := os.Getenv("VERIF_HARNESS")
	f := vHarness[name]
	if f == nil {
		fmt.Println("VERIF-NOHARNESS", name)
		return
	}
	defer func() {
		r := recover()
		if _, ok := r.(vAssumeFailed); ok {
			fmt.Println("VERIF-ASSUME-FAILED")
			return
		}
		if len(vDiverge) > 0 {
			fmt.Println("VERIF-DIVERGED:", vDiverge)
		}
		if r != nil {
			fmt.Printf("VERIF-PANIC: %v\n", r)
		}
		if r != nil || len(vFailed) > 0 {
			fmt.Println("VERIF-REPRODUCED")
		} else {
			fmt.Println("VERIF-NOT-REPRODUCED")
		}
	}()
	f()
}

// TestVerifTraces replays sampled symbolic paths (one witness file each): the native run must consume exactly the
// same nd sequence (same tags, same count), fail no assertion and not panic.
func TestVerifTraces(t *testing.T) {
	dir := os.Getenv("VERIF_TRACE_DIR")
	ents, _ := os.ReadDir(dir)
	for _, e := range ents {
		func() {
			path := dir + "/" + e.Name()
			vResetWitness(path)
			f := vHarness[vWit.Harness]
			if f == nil {
				fmt.Println("VERIF-TRACE", e.Name(), "noharness")
				return
			}
			defer func() {
				r := recover()
				switch {
				case r != nil:
					if _, ok := r.(vAssumeFailed); ok {
						fmt.Println("VERIF-TRACE", e.Name(), "assume-failed")
					} else {
						fmt.Println("VERIF-TRACE", e.Name(), "panic", r)
					}
				case len(vDiverge) > 0 || vPos != len(vWit.ND):
					fmt.Println("VERIF-TRACE", e.Name(), "diverged", vDiverge, vPos, len(vWit.ND))
				case len(vFailed) > 0:
					fmt.Println("VERIF-TRACE", e.Name(), "assert-failed", vFailed)
				default:
					fmt.Println("VERIF-TRACE", e.Name(), "ok")
				}
			}()
			f()
		}()
	}
}
`

func replayNative(ps *PropertySpec, v *Violation, wpath string, results []*HarnessResult) string {
	var spec *HarnessSpec
	for _, hr := range results {
		if hr.Spec.Fn == v.Harness {
			s := hr.Spec
			spec = &s
		}
	}
	if spec == nil {
		return "replay-unsupported"
	}
	if spec.Replay == "none" {
		return "replay-unsupported"
	}
	if spec.Replay == "besteffort" {
		// the harness depends on the virtual clock: a native run that does not reproduce proves nothing
		st := replayNativeRun(spec, v, wpath)
		if st == "reproduced" {
			return st
		}
		return "replay-unsupported"
	}
	return replayNativeRun(spec, v, wpath)
}

func replayNativeRun(spec *HarnessSpec, v *Violation, wpath string) string {
	dir := filepath.Dir(wpath)
	base := strings.TrimSuffix(filepath.Base(wpath), ".witness.json")
	// witness in the format the native API reads
	params := map[string]int{}
	for k, val := range spec.Params {
		params[k] = val
	}
	if os.Getenv("VERIF_TIER_ACTIVE") == "thorough" {
		for k, val := range spec.Thorough {
			params[k] = val
		}
	}
	nat := map[string]interface{}{"harness": v.Harness, "nd": v.ND, "params": params}
	natPath := filepath.Join(dir, base+".replay.json")
	if err := writeJSON(natPath, nat); err != nil {
		return "replay-error"
	}
	ov, err := overlayFor([]string{spec.Pkg}, true)
	if err != nil {
		return "replay-error"
	}
	repl := map[string]string{}
	pkgName := ""
	i := 0
	for virt, src := range ov {
		real := filepath.Join(dir, fmt.Sprintf("%s.ov%d.go", base, i))
		i++
		os.WriteFile(real, src, 0o644)
		repl[virt] = real
		if virt == filepath.Join(repoDir(), spec.Pkg, "zz_verif_api.go") {
			for _, ln := range strings.Split(string(src), "\n") {
				if strings.HasPrefix(ln, "package ") {
					pkgName = strings.TrimSpace(strings.TrimPrefix(ln, "package "))
				}
			}
		}
	}
	testReal := filepath.Join(dir, base+".replay_test.go")
	os.WriteFile(testReal, []byte(strings.ReplaceAll(replayTestSrc, "PKGNAME", pkgName)), 0o644)
	repl[filepath.Join(repoDir(), spec.Pkg, "zz_verif_replay_test.go")] = testReal
	ovPath := filepath.Join(dir, base+".overlay.json")
	b, _ := json.Marshal(map[string]interface{}{"Replace": repl})
	os.WriteFile(ovPath, b, 0o644)

	ctx, cancel := context.WithTimeout(context.Background(), 240*time.Second)
	defer cancel()
	cmd := exec.CommandContext(ctx, "go", "test", "-tags", "verif", "-vet=off", "-count=1", "-overlay", ovPath, "-run", "^TestVerifReplay$", "-timeout", "60s", "-v", "./"+spec.Pkg)
	cmd.Dir = repoDir()
	cmd.Env = append(os.Environ(), "GOFLAGS=", "GOPROXY=off", "GOSUMDB=off", "GOTOOLCHAIN=local", "VERIF_WITNESS="+natPath, "VERIF_HARNESS="+v.Harness)
	out, _ := cmd.CombinedOutput()
	os.WriteFile(filepath.Join(dir, base+".replay.log"), out, 0o644)
	s := string(out)
	// command line to repeat the replay by hand
	os.WriteFile(filepath.Join(dir, base+".replay.sh"), []byte(fmt.Sprintf("#!/bin/sh\ncd %s && VERIF_WITNESS=%s VERIF_HARNESS=%s GOFLAGS= go1.26.8 test -tags verif -vet=off -count=1 -overlay %s -run '^TestVerifReplay$' -v ./%s\n",
		repoDir(), natPath, v.Harness, ovPath, spec.Pkg)), 0o755)
	if v.Kind == "hang" {
		if strings.Contains(s, "all goroutines are asleep") || strings.Contains(s, "test timed out") || ctx.Err() != nil {
			return "reproduced"
		}
	}
	switch {
	case strings.Contains(s, "VERIF-ASSUME-FAILED"):
		return "replay-assume-failed"
	case strings.Contains(s, "VERIF-REPRODUCED"):
		if v.Kind == "panic" && !strings.Contains(s, "VERIF-PANIC") {
			return "replay-different-failure"
		}
		if v.Kind == "assert" && !strings.Contains(s, "VERIF-ASSERT-FAILED: "+v.Msg) {
			return "replay-different-failure"
		}
		return "reproduced"
	case strings.Contains(s, "VERIF-NOT-REPRODUCED"):
		return "not-reproduced"
	case strings.Contains(s, "panic:") || strings.Contains(s, "fatal error:"):
		// crashed outside the deferred handler (e.g. in another goroutine)
		return "reproduced"
	}
	return "replay-error"
}

// validateTraces runs sampled normal-end paths natively (one go test per package) and returns (validated, mismatches).
func validateTraces(ps *PropertySpec, results []*HarnessResult, outDir string) (int, []string) {
	byPkg := map[string][]*HarnessResult{}
	for _, hr := range results {
		if len(hr.TraceSamples) > 0 && hr.Spec.Replay == "" {
			byPkg[hr.Spec.Pkg] = append(byPkg[hr.Spec.Pkg], hr)
		}
	}
	validated := 0
	var bad []string
	for pkg, hrs := range byPkg {
		tdir := filepath.Join(outDir, "traces_"+strings.ReplaceAll(pkg, "/", "_"))
		os.RemoveAll(tdir)
		os.MkdirAll(tdir, 0o755)
		n := 0
		for hi, hr := range hrs {
			for i, ts := range hr.TraceSamples {
				writeJSON(filepath.Join(tdir, fmt.Sprintf("%s.h%d.%d.json", hr.Spec.Fn, hi, i)), map[string]interface{}{"harness": hr.Spec.Fn, "nd": ts, "params": hr.Params})
				n++
			}
		}
		ov, err := overlayFor([]string{pkg}, true)
		if err != nil {
			bad = append(bad, pkg+": overlay: "+err.Error())
			continue
		}
		repl := map[string]string{}
		pkgName := ""
		i := 0
		for virt, src := range ov {
			real := filepath.Join(tdir, fmt.Sprintf("ov%d.go.txt", i))
			i++
			os.WriteFile(real, src, 0o644)
			repl[virt] = real
			if virt == filepath.Join(repoDir(), pkg, "zz_verif_api.go") {
				for _, ln := range strings.Split(string(src), "\n") {
					if strings.HasPrefix(ln, "package ") {
						pkgName = strings.TrimSpace(strings.TrimPrefix(ln, "package "))
					}
				}
			}
		}
		testReal := filepath.Join(tdir, "replay_test.go.txt")
		os.WriteFile(testReal, []byte(strings.ReplaceAll(replayTestSrc, "PKGNAME", pkgName)), 0o644)
		repl[filepath.Join(repoDir(), pkg, "zz_verif_replay_test.go")] = testReal
		ovPath := filepath.Join(tdir, "overlay.json.txt")
		b, _ := json.Marshal(map[string]interface{}{"Replace": repl})
		os.WriteFile(ovPath, b, 0o644)
		ctx, cancel := context.WithTimeout(context.Background(), 300*time.Second)
		cmd := exec.CommandContext(ctx, "go", "test", "-tags", "verif", "-vet=off", "-count=1", "-overlay", ovPath, "-run", "^TestVerifTraces$", "-timeout", "240s", "-v", "./"+pkg)
		cmd.Dir = repoDir()
		// the trace dir holds only the witness json files
		wdir := filepath.Join(tdir, "w")
		os.MkdirAll(wdir, 0o755)
		ents, _ := os.ReadDir(tdir)
		for _, e := range ents {
			if strings.HasSuffix(e.Name(), ".json") {
				os.Rename(filepath.Join(tdir, e.Name()), filepath.Join(wdir, e.Name()))
			}
		}
		cmd.Env = append(os.Environ(), "GOFLAGS=", "GOPROXY=off", "GOSUMDB=off", "GOTOOLCHAIN=local", "VERIF_TRACE_DIR="+wdir)
		out, _ := cmd.CombinedOutput()
		cancel()
		os.WriteFile(filepath.Join(tdir, "traces.log"), out, 0o644)
		seen := 0
		for _, ln := range strings.Split(string(out), "\n") {
			if strings.HasPrefix(ln, "VERIF-TRACE ") {
				seen++
				f := strings.Fields(ln)
				if len(f) >= 3 && f[2] == "ok" {
					validated++
				} else {
					bad = append(bad, pkg+": "+ln)
				}
			}
		}
		if seen != n {
			bad = append(bad, fmt.Sprintf("%s: trace validation ran %d of %d traces (see %s)", pkg, seen, n, filepath.Join(tdir, "traces.log")))
		}
	}
	return validated, bad
}
