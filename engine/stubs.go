package main

// Environment model: every stub here is part of the claim and is listed in the evidence
// (Interp.stubsUsed records which ones a run actually went through).

import (
	"fmt"
	"go/types"
	"strconv"
	"strings"

	"golang.org/x/tools/go/ssa"
)

type stubFn func(in *Interp, fr *frame, args []Value) Value

type timerRec struct {
	fn    Value
	args  []Value
	armed bool
	when  *Term
	ptr   *Value
	seq   int
}

type goRec struct {
	fn   Value
	args []Value
}

type EnvState struct {
	now      *Term
	timers   []*timerRec
	pending  []goRec
	onceDone map[*Value]bool
	locks    map[*Value]int
	sent     []Value // harness-visible record channel (vRecord)
	kv       map[string]Value
	// scripted UDP socket
	udpIn         []SliceV
	udpOut        []SliceV
	udpOnEmpty    Value
	udpEmptyReads int
	jsonVals      map[string]Value
	httpNext      []Value
	acct          *acctEnv
	selectNondet  bool
	httpURLs      []string
	onSleep       Value
	inSleepHook   bool
	nestedSleep   bool
	timeNames     map[*Term]int
}

func newEnv(in *Interp) *EnvState {
	return &EnvState{onceDone: map[*Value]bool{}, locks: map[*Value]int{}, kv: map[string]Value{}}
}

func (e *EnvState) spawn(in *Interp, fn Value, args []Value, site ssa.Instruction) {
	e.pending = append(e.pending, goRec{fn, args})
}

func (in *Interp) clockNow() *Term {
	e := in.env
	if e.now == nil {
		// symbolic wall clock in a sane range (2020..2030) so that Unix() style arithmetic cannot wrap
		t := in.freshInternal("clock0", 64)
		in.assume(in.tc.And(in.tc.Cmp(OpSLe, in.k64(1577836800_000000000), t), in.tc.Cmp(OpSLe, t, in.k64(1893456000_000000000))))
		e.now = t
	}
	return e.now
}

func (in *Interp) mkTime(ns *Term) Value {
	return Struct{in.tc.Const(1, 64), ns, (*Value)(nil)}
}

func timeNS(v Value) *Term { return v.(Struct)[1].(*Term) }

func (in *Interp) mkError(msg string, wraps ...Value) Value {
	return Iface{T: &opaqueType{"error"}, V: &opaqueErr{Name: msg}}
}

func (in *Interp) runPending() {
	for len(in.env.pending) > 0 {
		g := in.env.pending[0]
		in.env.pending = in.env.pending[1:]
		in.runGoroutine(g)
	}
}

func (in *Interp) runGoroutine(g goRec) {
	saveTop := in.top
	defer func() {
		in.top = saveTop
		if r := recover(); r != nil {
			if pe, ok := r.(pathEnd); ok && pe.Kind == EndBlocked {
				return // goroutine parks forever
			}
			panic(r)
		}
	}()
	in.call(nil, g.fn, g.args, nil)
}

var harnessAPI = map[string]stubFn{}

func init() {
	h := harnessAPI
	nd := func(w int) stubFn {
		return func(in *Interp, fr *frame, a []Value) Value { return in.fresh(a[0].(string), w) }
	}
	h["ndBool"] = nd(0)
	h["ndU8"] = nd(8)
	h["ndU16"] = nd(16)
	h["ndU32"] = nd(32)
	h["ndU64"] = nd(64)
	h["ndI64"] = nd(64)
	h["ndInt"] = func(in *Interp, fr *frame, a []Value) Value {
		x := in.fresh(a[0].(string), 64)
		lo, hi := a[1].(*Term), a[2].(*Term)
		in.assume(in.tc.And(in.tc.Cmp(OpSLe, lo, x), in.tc.Cmp(OpSLe, x, hi)))
		return x
	}
	h["ndDuration"] = func(in *Interp, fr *frame, a []Value) Value {
		x := in.fresh(a[0].(string), 64)
		in.assume(in.tc.And(in.tc.Cmp(OpSLe, in.k64(0), x), in.tc.Cmp(OpSLe, x, in.k64(1<<55))))
		return x
	}
	h["ndBytes"] = func(in *Interp, fr *frame, a []Value) Value {
		n := int(in.concretize(a[1].(*Term), "ndBytes size"))
		arr := make([]Value, n)
		for i := range arr {
			arr[i] = in.fresh(fmt.Sprintf("%s[%d]", a[0].(string), i), 8)
		}
		return in.mkSliceConst(arr)
	}
	h["ndPick"] = func(in *Interp, fr *frame, a []Value) Value {
		n := int(in.concretize(a[1].(*Term), "ndPick n"))
		return in.k64(int64(in.pick(a[0].(string), n)))
	}
	h["vAssume"] = func(in *Interp, fr *frame, a []Value) Value {
		in.assume(a[0].(*Term))
		return nil
	}
	h["vAssert"] = func(in *Interp, fr *frame, a []Value) Value {
		site := "?"
		if fr.caller != nil {
			site = fr.caller.fn.String()
		}
		in.assertTerm(a[0].(*Term), a[1].(string), site)
		return nil
	}
	h["vReach"] = func(in *Interp, fr *frame, a []Value) Value {
		if in.feasible() {
			in.path.reached[a[0].(string)] = true
		}
		return nil
	}
	h["vTag"] = func(in *Interp, fr *frame, a []Value) Value {
		t := a[0].(string)
		for _, x := range in.path.tags {
			if x == t {
				return nil
			}
		}
		in.path.tags = append(in.path.tags, t)
		return nil
	}
	h["vOnSleep"] = func(in *Interp, fr *frame, a []Value) Value {
		in.env.onSleep = a[0]
		return nil
	}
	h["vSelectNondet"] = func(in *Interp, fr *frame, a []Value) Value {
		in.env.selectNondet = true
		return nil
	}
	h["vObserve"] = func(in *Interp, fr *frame, a []Value) Value {
		in.path.observe = append(in.path.observe, a[0].(string)+"="+showValue(a[1]))
		return nil
	}
	h["vRunPending"] = func(in *Interp, fr *frame, a []Value) Value {
		in.runPending()
		return nil
	}
	h["vDropPending"] = func(in *Interp, fr *frame, a []Value) Value {
		in.env.pending = nil
		return nil
	}
	h["vParam"] = func(in *Interp, fr *frame, a []Value) Value {
		if v, ok := in.params[a[0].(string)]; ok {
			return in.k64(int64(v))
		}
		return a[1]
	}
	h["vSymbolic"] = func(in *Interp, fr *frame, a []Value) Value { return tTrue }
	h["vAdvance"] = func(in *Interp, fr *frame, a []Value) Value {
		d := a[0].(*Term)
		in.assume(in.tc.And(in.tc.Cmp(OpSLe, in.k64(0), d), in.tc.Cmp(OpSLe, d, in.k64(1<<56))))
		in.env.now = in.tc.Bin(OpAdd, in.clockNow(), d)
		return nil
	}
	// vFireTimer(i): fire the i-th armed timer if one exists; returns whether it ran
	h["vTimersArmed"] = func(in *Interp, fr *frame, a []Value) Value {
		n := 0
		for _, t := range in.env.timers {
			if t.armed {
				n++
			}
		}
		return in.k64(int64(n))
	}
	// vFireDue fires every armed timer whose deadline has been reached (in creation order); returns how many ran.
	h["vFireDue"] = func(in *Interp, fr *frame, a []Value) Value {
		n := 0
		for i := 0; i < len(in.env.timers); i++ {
			t := in.env.timers[i]
			if !t.armed {
				continue
			}
			if in.decide(in.tc.Cmp(OpSLe, t.when, in.clockNow())) {
				t.armed = false
				in.call(fr, t.fn, t.args, nil)
				n++
			}
		}
		return in.k64(int64(n))
	}
	h["vFireTimer"] = func(in *Interp, fr *frame, a []Value) Value {
		k := int(in.concretize(a[0].(*Term), "timer index"))
		for _, t := range in.env.timers {
			if t.armed {
				if k == 0 {
					t.armed = false
					// time has reached the deadline
					now := in.clockNow()
					in.env.now = in.tc.Ite(in.tc.Cmp(OpSLt, now, t.when), t.when, now)
					in.call(fr, t.fn, t.args, nil)
					return tTrue
				}
				k--
			}
		}
		return tFalse
	}
}

func pkgPathOf(fn *ssa.Function) string {
	if fn.Pkg != nil {
		return fn.Pkg.Pkg.Path()
	}
	if fn.Object() != nil && fn.Object().Pkg() != nil {
		return fn.Object().Pkg().Path()
	}
	if o := fn.Origin(); o != nil && o.Pkg != nil {
		return o.Pkg.Pkg.Path()
	}
	return ""
}

var opaquePkgs = []string{
	"go.uber.org/zap", "go.uber.org/zap/zapcore", "github.com/prometheus/client_golang/prometheus",
	"github.com/prometheus/client_golang/prometheus/promauto", "log", "log/slog",
}

func (in *Interp) findStub(fn *ssa.Function, name string) stubFn {
	if s, ok := stubs[name]; ok {
		return s
	}
	if strings.HasPrefix(name, "unique.Make[") {
		return func(in *Interp, fr *frame, a []Value) Value {
			var cell Value = copyVal(a[0])
			return Struct{&cell}
		}
	}
	pp := pkgPathOf(fn)
	if strings.HasPrefix(pp, "github.com/codelaboratoryltd/bng") {
		if s, ok := harnessAPI[fn.Name()]; ok && fn.Parent() == nil && fn.Signature.Recv() == nil {
			return s
		}
		return nil
	}
	for _, p := range opaquePkgs {
		if pp == p {
			return func(in *Interp, fr *frame, a []Value) Value { return in.zeroResults(fn.Signature) }
		}
	}
	return nil
}

// reportHang records a hang violation (the program can make no further progress) and ends the path.
func (in *Interp) reportHang(msg string, fr *frame) {
	if in.definitelyFeasible() {
		in.ensureModel()
		site := "?"
		if fr != nil && fr.caller != nil {
			site = fr.caller.fn.String()
		}
		p := in.path
		v := &Violation{Harness: in.harness, Kind: "hang", Msg: msg, Site: site, Tags: append([]string(nil), p.tags...),
			ND: in.witness(p.model), Model: p.model, Stack: in.stackTrace()}
		v.Key = violationKey(v)
		p.violations = append(p.violations, v)
	}
	panic(pathEnd{EndViolation, msg})
}

func noop(in *Interp, fr *frame, a []Value) Value { return nil }

// atomic helpers operate directly on the cell
func atomicLoad(in *Interp, fr *frame, a []Value) Value { return in.load(nil, a[0]) }
func atomicStore(in *Interp, fr *frame, a []Value) Value {
	in.store(nil, a[0], a[1])
	return nil
}
func atomicAdd(in *Interp, fr *frame, a []Value) Value {
	old := in.load(nil, a[0]).(*Term)
	nv := in.tc.Bin(OpAdd, old, a[1].(*Term))
	in.store(nil, a[0], nv)
	return nv
}
func atomicSwap(in *Interp, fr *frame, a []Value) Value {
	old := in.load(nil, a[0])
	in.store(nil, a[0], a[1])
	return old
}
func atomicCAS(in *Interp, fr *frame, a []Value) Value {
	old := in.load(nil, a[0])
	if in.decide(in.equals(old, a[1])) {
		in.store(nil, a[0], a[2])
		return tTrue
	}
	return tFalse
}

func (in *Interp) bytesEqual(a, b SliceV) *Term {
	tc := in.tc
	r := tc.Eq(a.N, b.N)
	if r.IsFalse() {
		return r
	}
	ub := len(a.Arr)
	if len(b.Arr) < ub {
		ub = len(b.Arr)
	}
	if a.N.IsConst() && int(a.N.V) < ub {
		ub = int(a.N.V)
	}
	if b.N.IsConst() && int(b.N.V) < ub {
		ub = int(b.N.V)
	}
	for i := 0; i < ub; i++ {
		k := in.k64(int64(i))
		pa, pb := tc.Bin(OpAdd, a.Off, k), tc.Bin(OpAdd, b.Off, k)
		if pa.IsConst() && pa.V >= uint64(len(a.Arr)) || pb.IsConst() && pb.V >= uint64(len(b.Arr)) {
			break
		}
		ea, eb := in.sel(a.Arr, pa).(*Term), in.sel(b.Arr, pb).(*Term)
		r = tc.And(r, tc.Or(tc.Cmp(OpULe, a.N, k), tc.Eq(ea, eb)))
	}
	return r
}

func (in *Interp) goString(v Value) (string, bool) {
	switch s := v.(type) {
	case string:
		return s, true
	case *SymStr:
		if c, ok := normStr(s).(string); ok {
			return c, true
		}
	}
	return "", false
}

// nativeArg converts an interface-boxed interpreter value to a native Go value for formatting.
func (in *Interp) nativeArg(fr *frame, v Value) (interface{}, bool) {
	itf, ok := v.(Iface)
	if !ok {
		return nil, false
	}
	if itf.T == nil {
		return nil, true
	}
	if _, ok := itf.T.(*opaqueType); ok {
		if oe, ok := itf.V.(*opaqueErr); ok {
			return oe.Name, true
		}
		return "opaque", true
	}
	// Stringer / error
	for _, mname := range []string{"Error", "String"} {
		ms := in.prog.MethodSets.MethodSet(itf.T)
		if sel := ms.Lookup(nil, mname); sel != nil {
			sig := sel.Type().(*types.Signature)
			if sig.Params().Len() == 0 && sig.Results().Len() == 1 && types.Identical(sig.Results().At(0).Type(), types.Typ[types.String]) {
				f := in.prog.MethodValue(sel)
				if f != nil {
					r := in.call(fr, f, []Value{itf.V}, nil)
					if s, ok := in.goString(r); ok {
						return s, true
					}
					return nil, false
				}
			}
		}
	}
	switch x := itf.V.(type) {
	case *Term:
		if !x.IsConst() {
			return nil, false
		}
		if x.W == 0 {
			return x.V == 1, true
		}
		if isSigned(itf.T) {
			return signExt(x.V, x.W), true
		}
		return x.V, true
	case string:
		return x, true
	case *SymStr:
		s, ok := in.goString(x)
		return s, ok
	case FloatV:
		if x.Sym {
			return nil, false
		}
		return x.F, true
	case SliceV:
		if eb, ok := itf.T.Underlying().(*types.Slice); ok {
			if b, ok := eb.Elem().Underlying().(*types.Basic); ok && b.Kind() == types.Uint8 {
				if !x.N.IsConst() || !x.Off.IsConst() {
					return nil, false
				}
				bs := make([]byte, x.N.V)
				for i := range bs {
					t := x.Arr[int(x.Off.V)+i].(*Term)
					if !t.IsConst() {
						return nil, false
					}
					bs[i] = byte(t.V)
				}
				return bs, true
			}
		}
		return "[slice]", true
	case *Value:
		return fmt.Sprintf("%p", x), true
	}
	return fmt.Sprintf("<%s>", itf.T), true
}

// sprintf formats with concrete arguments; ok=false when some argument is symbolic.
func (in *Interp) sprintf(fr *frame, format string, va Value) (string, bool) {
	var nat []interface{}
	allOK := true
	if s, ok := va.(SliceV); ok && s.Arr != nil {
		n := int(in.concretize(s.N, "variadic len"))
		off := int(in.concretize(s.Off, "variadic off"))
		for i := 0; i < n; i++ {
			a, ok := in.nativeArg(fr, s.Arr[off+i])
			if !ok {
				allOK = false
				a = "<sym>"
			}
			nat = append(nat, a)
		}
	}
	return fmt.Sprintf(format, nat...), allOK
}

var stubs = map[string]stubFn{}

func init() {
	s := stubs
	// Mutexes: goroutines run one at a time in the engine, so a Lock on a mutex that is already held can never
	// be released by anyone: the caller hangs (self-deadlock). That is reported as a "hang" violation.
	lock := func(in *Interp, fr *frame, a []Value) Value {
		p, _ := a[0].(*Value)
		if p == nil {
			in.rtPanic("invalid memory address or nil pointer dereference")
		}
		if in.env.locks[p] != 0 {
			in.reportHang("deadlock: Lock of a sync mutex already held on this path", fr)
		}
		in.env.locks[p] = -1
		return nil
	}
	unlock := func(in *Interp, fr *frame, a []Value) Value {
		p, _ := a[0].(*Value)
		if p == nil {
			in.rtPanic("invalid memory address or nil pointer dereference")
		}
		if in.env.locks[p] != -1 {
			panic(&GoPanic{Msg: "fatal error: sync: unlock of unlocked mutex", Runtime: true, Site: in.curSite(), Stack: in.stackTrace(), Val: Iface{T: in.runtimeErrT, V: "sync: unlock of unlocked mutex"}})
		}
		delete(in.env.locks, p)
		return nil
	}
	rlock := func(in *Interp, fr *frame, a []Value) Value {
		p, _ := a[0].(*Value)
		if p == nil {
			in.rtPanic("invalid memory address or nil pointer dereference")
		}
		if in.env.locks[p] == -1 {
			in.reportHang("deadlock: RLock of a sync.RWMutex write-locked on this path", fr)
		}
		in.env.locks[p]++
		return nil
	}
	runlock := func(in *Interp, fr *frame, a []Value) Value {
		p, _ := a[0].(*Value)
		if p == nil {
			in.rtPanic("invalid memory address or nil pointer dereference")
		}
		if in.env.locks[p] <= 0 {
			panic(&GoPanic{Msg: "fatal error: sync: RUnlock of unlocked RWMutex", Runtime: true, Site: in.curSite(), Stack: in.stackTrace(), Val: Iface{T: in.runtimeErrT, V: "sync: RUnlock of unlocked RWMutex"}})
		}
		in.env.locks[p]--
		if in.env.locks[p] == 0 {
			delete(in.env.locks, p)
		}
		return nil
	}
	s["(*sync.Mutex).Lock"] = lock
	s["(*sync.Mutex).Unlock"] = unlock
	s["(*sync.RWMutex).Lock"] = lock
	s["(*sync.RWMutex).Unlock"] = unlock
	s["(*sync.RWMutex).RLock"] = rlock
	s["(*sync.RWMutex).RUnlock"] = runlock
	for _, n := range []string{
		"(*sync.WaitGroup).Add", "(*sync.WaitGroup).Done",
		"(*sync.WaitGroup).Wait", "runtime.Gosched", "runtime.GC", "runtime.KeepAlive", "runtime.SetFinalizer",
		"(*sync.WaitGroup).Go",
	} {
		s[n] = noop
	}
	s["(*sync.Mutex).TryLock"] = func(in *Interp, fr *frame, a []Value) Value { return tTrue }
	s["(*sync.Once).Do"] = func(in *Interp, fr *frame, a []Value) Value {
		p := a[0].(*Value)
		if in.env.onceDone[p] {
			return nil
		}
		in.env.onceDone[p] = true
		in.call(fr, a[1], nil, nil)
		return nil
	}
	for _, k := range []string{"Int32", "Int64", "Uint32", "Uint64", "Uintptr", "Pointer"} {
		s["sync/atomic.Load"+k] = atomicLoad
		s["sync/atomic.Store"+k] = atomicStore
		s["sync/atomic.Add"+k] = atomicAdd
		s["sync/atomic.Swap"+k] = atomicSwap
		s["sync/atomic.CompareAndSwap"+k] = atomicCAS
	}
	// ---- time ----
	s["time.Now"] = func(in *Interp, fr *frame, a []Value) Value { return in.mkTime(in.clockNow()) }
	s["time.Since"] = func(in *Interp, fr *frame, a []Value) Value {
		return in.tc.Bin(OpSub, in.clockNow(), timeNS(a[0]))
	}
	s["time.Until"] = func(in *Interp, fr *frame, a []Value) Value {
		return in.tc.Bin(OpSub, timeNS(a[0]), in.clockNow())
	}
	s["time.Sleep"] = func(in *Interp, fr *frame, a []Value) Value {
		d := a[0].(*Term)
		pos := in.tc.Ite(in.tc.Cmp(OpSLt, d, in.k64(0)), in.k64(0), d)
		wake := in.tc.Bin(OpAdd, in.clockNow(), pos)
		if in.env.inSleepHook {
			in.env.nestedSleep = true
		}
		if f := in.env.onSleep; f != nil && !in.env.inSleepHook {
			// the rest of the system keeps running while this goroutine sleeps: the harness may let (part of) the
			// time pass and deliver events; afterwards the sleeper wakes at its deadline
			in.env.inSleepHook = true
			in.env.nestedSleep = false
			in.call(fr, f, []Value{pos}, nil)
			in.env.inSleepHook = false
			if !in.env.nestedSleep {
				// the hook only let part of the time pass (its own assumption): the sleeper wakes at its deadline
				in.env.now = wake
				return nil
			}
			// whatever ran meanwhile may itself have slept past this sleeper's deadline: it wakes no earlier than
			// its deadline and no earlier than now
			now := in.clockNow()
			in.env.now = in.tc.Ite(in.tc.Cmp(OpSLe, now, wake), wake, now)
			return nil
		}
		in.env.now = wake
		return nil
	}
	s["time.Unix"] = func(in *Interp, fr *frame, a []Value) Value {
		sec, ns := a[0].(*Term), a[1].(*Term)
		return in.mkTime(in.tc.Bin(OpAdd, in.tc.Bin(OpMul, sec, in.k64(1_000_000_000)), ns))
	}
	s["(time.Time).Add"] = func(in *Interp, fr *frame, a []Value) Value {
		t := a[0].(Struct)
		return Struct{t[0], in.tc.Bin(OpAdd, t[1].(*Term), a[1].(*Term)), t[2]}
	}
	s["(time.Time).Sub"] = func(in *Interp, fr *frame, a []Value) Value {
		return in.tc.Bin(OpSub, timeNS(a[0]), timeNS(a[1]))
	}
	s["(time.Time).After"] = func(in *Interp, fr *frame, a []Value) Value {
		return in.tc.Cmp(OpSLt, timeNS(a[1]), timeNS(a[0]))
	}
	s["(time.Time).Before"] = func(in *Interp, fr *frame, a []Value) Value {
		return in.tc.Cmp(OpSLt, timeNS(a[0]), timeNS(a[1]))
	}
	s["(time.Time).Equal"] = func(in *Interp, fr *frame, a []Value) Value {
		return in.tc.Eq(timeNS(a[0]), timeNS(a[1]))
	}
	s["(time.Time).Compare"] = func(in *Interp, fr *frame, a []Value) Value {
		x, y := timeNS(a[0]), timeNS(a[1])
		return in.tc.Ite(in.tc.Cmp(OpSLt, x, y), in.k64(-1), in.tc.Ite(in.tc.Eq(x, y), in.k64(0), in.k64(1)))
	}
	s["(time.Time).IsZero"] = func(in *Interp, fr *frame, a []Value) Value {
		t := a[0].(Struct)
		return in.tc.And(in.tc.Eq(t[0].(*Term), in.tc.Const(0, 64)), in.tc.Eq(t[1].(*Term), in.k64(0)))
	}
	s["(time.Time).UnixNano"] = func(in *Interp, fr *frame, a []Value) Value { return timeNS(a[0]) }
	s["(time.Time).Unix"] = func(in *Interp, fr *frame, a []Value) Value {
		return in.tc.Bin(OpSDiv, timeNS(a[0]), in.k64(1_000_000_000))
	}
	s["(time.Time).UTC"] = func(in *Interp, fr *frame, a []Value) Value { return a[0] }
	s["(time.Time).Local"] = s["(time.Time).UTC"]
	s["(time.Time).Round"] = s["(time.Time).UTC"]
	// formatted instants are placeholders that are equal exactly when the instants are the same term
	s["(time.Time).Format"] = func(in *Interp, fr *frame, a []Value) Value {
		t := timeNS(a[0])
		if in.env.timeNames == nil {
			in.env.timeNames = map[*Term]int{}
		}
		n, ok := in.env.timeNames[t]
		if !ok {
			n = len(in.env.timeNames)
			in.env.timeNames[t] = n
		}
		if n == 0 {
			return "<time>"
		}
		return fmt.Sprintf("<time+%d>", n)
	}
	s["(time.Time).String"] = s["(time.Time).Format"]
	s["(time.Duration).String"] = func(in *Interp, fr *frame, a []Value) Value { return "<duration>" }
	s["(time.Time).MarshalJSON"] = func(in *Interp, fr *frame, a []Value) Value {
		panic(unsupported("time.MarshalJSON"))
	}
	s["time.AfterFunc"] = func(in *Interp, fr *frame, a []Value) Value {
		var cell Value = in.zero(fr.fn.Signature.Results().At(0).Type().(*types.Pointer).Elem())
		p := &cell
		d := a[0].(*Term)
		in.env.timers = append(in.env.timers, &timerRec{fn: a[1], armed: true, when: in.tc.Bin(OpAdd, in.clockNow(), d), ptr: p, seq: len(in.env.timers)})
		return p
	}
	s["(*time.Timer).Stop"] = func(in *Interp, fr *frame, a []Value) Value {
		p, _ := a[0].(*Value)
		if p == nil {
			in.rtPanic("invalid memory address or nil pointer dereference")
		}
		for _, t := range in.env.timers {
			if t.ptr == p {
				was := t.armed
				t.armed = false
				return in.tc.Bool(was)
			}
		}
		return tFalse
	}
	s["(*time.Timer).Reset"] = func(in *Interp, fr *frame, a []Value) Value {
		p, _ := a[0].(*Value)
		if p == nil {
			in.rtPanic("invalid memory address or nil pointer dereference")
		}
		for _, t := range in.env.timers {
			if t.ptr == p {
				was := t.armed
				t.armed = true
				t.when = in.tc.Bin(OpAdd, in.clockNow(), a[1].(*Term))
				return in.tc.Bool(was)
			}
		}
		return tFalse
	}
	// ---- errors / fmt ----
	s["fmt.Errorf"] = func(in *Interp, fr *frame, a []Value) Value {
		msg, _ := in.sprintfLenient(fr, a[0], a[1])
		oe := &opaqueErr{Name: msg}
		// remember wrapped errors for errors.Is
		if sl, ok := a[1].(SliceV); ok && sl.Arr != nil && sl.N.IsConst() && sl.Off.IsConst() {
			for i := 0; i < int(sl.N.V); i++ {
				if itf, ok := sl.Arr[int(sl.Off.V)+i].(Iface); ok && itf.T != nil && in.isErrorType(itf.T) {
					in.wraps[oe] = append(in.wraps[oe], itf)
				}
			}
		}
		return Iface{T: &opaqueType{"error"}, V: oe}
	}
	s["fmt.Sprintf"] = func(in *Interp, fr *frame, a []Value) Value {
		f, ok := in.goString(a[0])
		if !ok {
			panic(unsupported("Sprintf with symbolic format"))
		}
		r, ok := in.sprintf(fr, f, a[1])
		if !ok {
			in.lossyStrings++
			return fmt.Sprintf("%s#sym%d", r, in.lossyStrings)
		}
		return r
	}
	s["fmt.Sprint"] = func(in *Interp, fr *frame, a []Value) Value {
		r, _ := in.sprintf(fr, "%v", a[0])
		return r
	}
	for _, n := range []string{"fmt.Printf", "fmt.Println", "fmt.Print", "fmt.Fprintf", "fmt.Fprintln", "fmt.Fprint"} {
		nn := n
		s[nn] = func(in *Interp, fr *frame, a []Value) Value { return in.zeroResults(fr.fn.Signature) }
	}
	s["errors.Is"] = func(in *Interp, fr *frame, a []Value) Value {
		return in.tc.Bool(in.errorsIs(a[0], a[1], 0))
	}
	s["errors.As"] = func(in *Interp, fr *frame, a []Value) Value { return tFalse }
	s["errors.Unwrap"] = func(in *Interp, fr *frame, a []Value) Value {
		if itf, ok := a[0].(Iface); ok {
			if oe, ok := itf.V.(*opaqueErr); ok && len(in.wraps[oe]) > 0 {
				return in.wraps[oe][0]
			}
		}
		return Iface{}
	}
	s["strconv.Itoa"] = func(in *Interp, fr *frame, a []Value) Value {
		t := a[0].(*Term)
		if !t.IsConst() {
			in.lossyStrings++
			return fmt.Sprintf("#symint%d", in.lossyStrings)
		}
		return strconv.FormatInt(int64(t.V), 10)
	}
	// ---- bytes ----
	beq := func(in *Interp, fr *frame, a []Value) Value { return in.bytesEqual(a[0].(SliceV), a[1].(SliceV)) }
	s["bytes.Equal"] = beq
	s["internal/bytealg.Equal"] = beq
	s["crypto/subtle.ConstantTimeCompare"] = func(in *Interp, fr *frame, a []Value) Value {
		return in.tc.Ite(in.bytesEqual(a[0].(SliceV), a[1].(SliceV)), in.k64(1), in.k64(0))
	}
	s["crypto/hmac.Equal"] = beq
	s["crypto/rand.Read"] = func(in *Interp, fr *frame, a []Value) Value {
		sl := a[0].(SliceV)
		n := int(in.concretize(sl.N, "rand.Read len"))
		off := int(in.concretize(sl.Off, "rand.Read off"))
		for i := 0; i < n; i++ {
			sl.Arr[off+i] = in.freshInternal("rand", 8)
		}
		return Tuple{sl.N, Iface{}}
	}
	s["github.com/u-root/uio/rand.Read"] = s["crypto/rand.Read"]
	s["github.com/u-root/uio/rand.ReadContext"] = func(in *Interp, fr *frame, a []Value) Value {
		return stubs["crypto/rand.Read"](in, fr, a[1:])
	}
	s["math/rand.Read"] = s["crypto/rand.Read"]
	s["context.Background"] = func(in *Interp, fr *frame, a []Value) Value {
		return Iface{T: &opaqueType{"context"}, V: Opaque{"ctx"}}
	}
	s["context.TODO"] = s["context.Background"]
	s["context.WithCancel"] = func(in *Interp, fr *frame, a []Value) Value {
		cancel := &Closure{Fn: nil}
		_ = cancel
		return Tuple{a[0], in.noopFunc()}
	}
	s["context.WithTimeout"] = func(in *Interp, fr *frame, a []Value) Value { return Tuple{a[0], in.noopFunc()} }
	s["context.WithDeadline"] = s["context.WithTimeout"]
	s["internal/reflectlite.TypeOf"] = func(in *Interp, fr *frame, a []Value) Value {
		return Iface{T: &opaqueType{"rtype"}, V: Opaque{"rtype"}}
	}
	s["reflect.TypeOf"] = s["internal/reflectlite.TypeOf"]
	s["sync.runtime_registerPoolCleanup"] = noop
	s["sync.runtime_notifyListCheck"] = noop
	s["internal/abi.TypeOf"] = func(in *Interp, fr *frame, a []Value) Value { return (*Value)(nil) }
	s["time.runtimeNano"] = func(in *Interp, fr *frame, a []Value) Value { return in.k64(1) }
	s["os.Getenv"] = func(in *Interp, fr *frame, a []Value) Value { return "" }
	s["os.Hostname"] = func(in *Interp, fr *frame, a []Value) Value { return Tuple{"host", Iface{}} }
}

func (in *Interp) noopFunc() Value { return &nativeFn{f: noop} }

func (in *Interp) sprintfLenient(fr *frame, f Value, va Value) (string, bool) {
	fs, ok := in.goString(f)
	if !ok {
		return "<symbolic format>", false
	}
	defer func() {
		if r := recover(); r != nil {
			if pe, ok := r.(pathEnd); ok && pe.Kind == EndUnsupported {
				return
			}
			panic(r)
		}
	}()
	return in.sprintf(fr, fs, va)
}

func (in *Interp) isErrorType(t types.Type) bool {
	if _, ok := t.(*opaqueType); ok {
		return true
	}
	return types.Implements(t, types.Universe.Lookup("error").Type().Underlying().(*types.Interface))
}

func (in *Interp) errorsIs(err, target Value, depth int) bool {
	if depth > 8 {
		return false
	}
	e, ok := err.(Iface)
	if !ok || e.T == nil {
		t, _ := target.(Iface)
		return t.T == nil && (!ok || e.T == nil)
	}
	eq := in.equals(err, target)
	if in.decide(eq) {
		return true
	}
	if oe, ok := e.V.(*opaqueErr); ok {
		for _, w := range in.wraps[oe] {
			if in.errorsIs(w, target, depth+1) {
				return true
			}
		}
		return false
	}
	// real error values: try an Unwrap method
	ms := in.prog.MethodSets.MethodSet(e.T)
	if sel := ms.Lookup(nil, "Unwrap"); sel != nil {
		if f := in.prog.MethodValue(sel); f != nil && f.Signature.Results().Len() == 1 {
			r := in.call(in.top, f, []Value{e.V}, nil)
			if ri, ok := r.(Iface); ok && ri.T != nil {
				return in.errorsIs(ri, target, depth+1)
			}
		}
	}
	return false
}
