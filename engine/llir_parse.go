//go:build llir

package main

// Parser for the subset of LLVM 14 textual IR that clang -target bpf -O1 produces for the eBPF programs under test.
// Anything outside the subset is an error that names the construct (nothing is skipped silently, except
// metadata, attribute groups and debug/lifetime noise which carry no semantics for the interpreter).

import (
	"fmt"
	"regexp"
	"strconv"
	"strings"
)

type LLTypeKind int

const (
	LLVoid LLTypeKind = iota
	LLInt
	LLPtrT
	LLArray
	LLStruct
	LLFuncT
	LLLabelT
	LLMetaT
)

type LLType struct {
	Kind   LLTypeKind
	Bits   int     // LLInt
	Elem   *LLType // LLPtrT, LLArray
	N      int     // LLArray
	Fields []*LLType
	Packed bool
	Opaque bool
	Name   string // named struct
	Ret    *LLType
	Params []*LLType
	VarArg bool
	// layout cache
	laidOut     bool
	layingOut   bool
	size, align int
	offs        []int
}

func (t *LLType) String() string {
	switch t.Kind {
	case LLVoid:
		return "void"
	case LLInt:
		return fmt.Sprintf("i%d", t.Bits)
	case LLPtrT:
		return t.Elem.String() + "*"
	case LLArray:
		return fmt.Sprintf("[%d x %s]", t.N, t.Elem)
	case LLStruct:
		if t.Name != "" {
			return "%" + t.Name
		}
		var fs []string
		for _, f := range t.Fields {
			fs = append(fs, f.String())
		}
		if t.Packed {
			return "<{" + strings.Join(fs, ", ") + "}>"
		}
		return "{" + strings.Join(fs, ", ") + "}"
	case LLFuncT:
		var ps []string
		for _, p := range t.Params {
			ps = append(ps, p.String())
		}
		if t.VarArg {
			ps = append(ps, "...")
		}
		return t.Ret.String() + " (" + strings.Join(ps, ", ") + ")"
	case LLLabelT:
		return "label"
	case LLMetaT:
		return "metadata"
	}
	return "?"
}

type llErr struct{ msg string }

func llFail(format string, a ...interface{}) { panic(llErr{fmt.Sprintf(format, a...)}) }

// layout computes size/alignment/field offsets according to the bpf data layout
// e-m:e-p:64:64-i64:64-i128:128-n32:64-S128 (natural alignment for iN up to 128 bits, 8-byte pointers).
func (t *LLType) layout() {
	if t.laidOut {
		return
	}
	if t.layingOut {
		llFail("recursive type %s has no finite layout", t)
	}
	t.layingOut = true
	defer func() { t.layingOut = false }()
	switch t.Kind {
	case LLInt:
		bytes := (t.Bits + 7) / 8
		al := 1
		for al < bytes {
			al *= 2
		}
		if al > 16 {
			al = 16
		}
		t.align = al
		t.size = (bytes + al - 1) / al * al
	case LLPtrT:
		t.size, t.align = 8, 8
	case LLArray:
		t.Elem.layout()
		t.align = t.Elem.align
		t.size = t.N * t.Elem.size
	case LLStruct:
		if t.Opaque {
			llFail("size of opaque type %s", t)
		}
		off, maxAl := 0, 1
		t.offs = make([]int, len(t.Fields))
		for i, f := range t.Fields {
			f.layout()
			al := f.align
			if t.Packed {
				al = 1
			}
			if al > maxAl {
				maxAl = al
			}
			off = (off + al - 1) / al * al
			t.offs[i] = off
			off += f.size
		}
		t.size = (off + maxAl - 1) / maxAl * maxAl
		t.align = maxAl
	default:
		llFail("size of type %s", t)
	}
	t.laidOut = true
}

func (t *LLType) Size() int  { t.layout(); return t.size }
func (t *LLType) Align() int { t.layout(); return t.align }
func (t *LLType) FieldOffset(i int) int {
	t.layout()
	return t.offs[i]
}

// storeBytes is the number of bytes a load/store of a first-class scalar touches.
func (t *LLType) storeBytes() int {
	switch t.Kind {
	case LLInt:
		return (t.Bits + 7) / 8
	case LLPtrT:
		return 8
	}
	return t.Size()
}

type LLOpKind int

const (
	opLocal LLOpKind = iota
	opGlobal
	opInt
	opNull
	opUndef
	opZero
	opArray
	opStruct
	opString
	opGEP
	opCast // bitcast / inttoptr / ptrtoint / trunc / zext / sext constant expressions
)

type LLOperand struct {
	Kind    LLOpKind
	Type    *LLType
	Name    string // local / global name
	Slot    int    // local
	Int     uint64
	Elems   []*LLOperand // array / struct elements; GEP: [ptr, idx...]; cast: [src]
	Str     []byte
	Op      string  // cast opcode
	SrcElem *LLType // GEP source element type
}

type LLInstr struct {
	Op      string
	Res     string
	ResSlot int
	Type    *LLType // result type (or value type for store / compare operand type for icmp)
	Ty2     *LLType // GEP source element type, alloca type, cast source type
	Ops     []*LLOperand
	Pred    string // icmp predicate, atomicrmw operation
	Labels  []string
	Blocks  []*LLBlock
	Cases   []uint64
	Callee  string
	Idx     []int
	Line    int
	Text    string
	Block   *LLBlock
	Spec    *LLSpec // conditional br: if-conversion plan (nil: none)
}

// LLSpec describes a triangle/diamond below a conditional branch whose side blocks are small and free of calls, so
// that they can be executed under a guard and merged at Join instead of forking.
type LLSpec struct {
	SideT, SideF *LLBlock // side block on the true / false edge (nil: that edge goes straight to Join)
	Join         *LLBlock
}

type LLBlock struct {
	Name   string
	Instrs []*LLInstr
	Fn     *LLFunc
	NPreds int
}

type LLParam struct {
	Name string
	Type *LLType
	Slot int
}

type LLFunc struct {
	Name    string
	Ret     *LLType
	Params  []LLParam
	VarArg  bool
	Blocks  []*LLBlock
	Section string
	NSlots  int
	Decl    bool
	blockBy map[string]*LLBlock
	slotOf  map[string]int
}

type LLGlobal struct {
	Name     string
	Type     *LLType
	Init     *LLOperand
	Section  string
	Const    bool
	External bool
}

type LLMapDef struct {
	Name                               string
	Type, KeySize, ValSize, MaxEntries int
	Flags                              int
}

type LLModule struct {
	Prog        string
	DataLayout  string
	Types       map[string]*LLType
	Globals     map[string]*LLGlobal
	GlobalOrder []string
	Funcs       map[string]*LLFunc
	FuncOrder   []string
	Maps        map[string]*LLMapDef
	MapOrder    []string
}

// ---- lexer ----

type llTok struct {
	k byte // 'w' word, '%' local, '@' global, 's' string, 'c' c-string, '!' metadata, '#' attr group, 'p' punctuation, 0 end
	s string
}

func isWordCh(c byte) bool {
	return c == '-' || c == '+' || c == '.' || c == '_' || c == '$' || (c >= '0' && c <= '9') || (c >= 'a' && c <= 'z') || (c >= 'A' && c <= 'Z')
}

func llLex(line string) []llTok {
	var toks []llTok
	i := 0
	n := len(line)
	readStr := func() string {
		// at opening quote
		j := i + 1
		for j < n && line[j] != '"' {
			j++
		}
		if j >= n {
			llFail("unterminated string in %q", line)
		}
		s := line[i+1 : j]
		i = j + 1
		return s
	}
	for i < n {
		c := line[i]
		switch {
		case c == ' ' || c == '\t' || c == '\r':
			i++
		case c == ';':
			return toks
		case c == '"':
			toks = append(toks, llTok{'s', readStr()})
		case c == 'c' && i+1 < n && line[i+1] == '"':
			i++
			toks = append(toks, llTok{'c', readStr()})
		case c == '%' || c == '@':
			i++
			var name string
			if i < n && line[i] == '"' {
				name = readStr()
			} else {
				j := i
				for j < n && isWordCh(line[j]) {
					j++
				}
				name = line[i:j]
				i = j
			}
			toks = append(toks, llTok{c, name})
		case c == '!':
			i++
			j := i
			for j < n && isWordCh(line[j]) {
				j++
			}
			toks = append(toks, llTok{'!', line[i:j]})
			i = j
		case c == '#':
			i++
			j := i
			for j < n && isWordCh(line[j]) {
				j++
			}
			toks = append(toks, llTok{'#', line[i:j]})
			i = j
		case isWordCh(c):
			j := i
			for j < n && isWordCh(line[j]) {
				j++
			}
			toks = append(toks, llTok{'w', line[i:j]})
			i = j
		default:
			toks = append(toks, llTok{'p', string(c)})
			i++
		}
	}
	return toks
}

// unescape decodes LLVM string escapes (\xx hex, \\).
func llUnescape(s string) []byte {
	var b []byte
	for i := 0; i < len(s); i++ {
		if s[i] == '\\' && i+1 < len(s) {
			if s[i+1] == '\\' {
				b = append(b, '\\')
				i++
				continue
			}
			if i+2 < len(s) {
				v, err := strconv.ParseUint(s[i+1:i+3], 16, 8)
				if err != nil {
					llFail("bad string escape in %q", s)
				}
				b = append(b, byte(v))
				i += 2
				continue
			}
		}
		b = append(b, s[i])
	}
	return b
}

// ---- parser ----

type llParser struct {
	mod   *LLModule
	lines []string
	ln    int // current line index
	toks  []llTok
	pos   int
}

func (p *llParser) peek() llTok {
	if p.pos < len(p.toks) {
		return p.toks[p.pos]
	}
	return llTok{}
}
func (p *llParser) next() llTok {
	t := p.peek()
	p.pos++
	return t
}
func (p *llParser) isP(s string) bool { t := p.peek(); return t.k == 'p' && t.s == s }
func (p *llParser) isW(s string) bool { t := p.peek(); return t.k == 'w' && t.s == s }
func (p *llParser) acceptP(s string) bool {
	if p.isP(s) {
		p.pos++
		return true
	}
	return false
}
func (p *llParser) acceptW(s string) bool {
	if p.isW(s) {
		p.pos++
		return true
	}
	return false
}
func (p *llParser) expectP(s string) {
	if !p.acceptP(s) {
		p.fail("expected %q, found %q", s, p.peek().s)
	}
}
func (p *llParser) expectW(s string) {
	if !p.acceptW(s) {
		p.fail("expected %q, found %q", s, p.peek().s)
	}
}
func (p *llParser) fail(format string, a ...interface{}) {
	line := ""
	if p.ln < len(p.lines) {
		line = strings.TrimSpace(p.lines[p.ln])
	}
	llFail("%s.ll:%d: %s  [%s]", p.mod.Prog, p.ln+1, fmt.Sprintf(format, a...), line)
}

var intTyRe = regexp.MustCompile(`^i[0-9]+$`)

func (p *llParser) namedType(name string) *LLType {
	if t, ok := p.mod.Types[name]; ok {
		return t
	}
	t := &LLType{Kind: LLStruct, Name: name, Opaque: true}
	p.mod.Types[name] = t
	return t
}

func (p *llParser) atTypeStart() bool {
	t := p.peek()
	switch t.k {
	case '%':
		return true
	case 'p':
		return t.s == "{" || t.s == "[" || t.s == "<"
	case 'w':
		return t.s == "void" || t.s == "label" || t.s == "metadata" || t.s == "ptr" || intTyRe.MatchString(t.s) ||
			t.s == "float" || t.s == "double" || t.s == "half"
	}
	return false
}

func (p *llParser) parseType() *LLType {
	var t *LLType
	tok := p.next()
	switch {
	case tok.k == 'w' && tok.s == "void":
		t = &LLType{Kind: LLVoid}
	case tok.k == 'w' && intTyRe.MatchString(tok.s):
		b, _ := strconv.Atoi(tok.s[1:])
		t = &LLType{Kind: LLInt, Bits: b}
	case tok.k == 'w' && tok.s == "label":
		t = &LLType{Kind: LLLabelT}
	case tok.k == 'w' && tok.s == "metadata":
		t = &LLType{Kind: LLMetaT}
	case tok.k == 'w' && tok.s == "ptr":
		p.fail("opaque pointer type 'ptr' (IR must be generated with typed pointers, clang-14)")
	case tok.k == 'w' && (tok.s == "float" || tok.s == "double" || tok.s == "half" || tok.s == "x86_fp80" || tok.s == "fp128"):
		p.fail("floating point type %s", tok.s)
	case tok.k == '%':
		t = p.namedType(tok.s)
	case tok.k == 'p' && tok.s == "{":
		t = &LLType{Kind: LLStruct, Fields: p.parseStructBody()}
	case tok.k == 'p' && tok.s == "<":
		if !p.acceptP("{") {
			p.fail("vector type")
		}
		t = &LLType{Kind: LLStruct, Packed: true, Fields: p.parseStructBody()}
		p.expectP(">")
	case tok.k == 'p' && tok.s == "[":
		nt := p.next()
		n, err := strconv.Atoi(nt.s)
		if err != nil {
			p.fail("array length %q", nt.s)
		}
		p.expectW("x")
		el := p.parseType()
		p.expectP("]")
		t = &LLType{Kind: LLArray, N: n, Elem: el}
	default:
		p.fail("type expected, found %q", tok.s)
	}
	for {
		switch {
		case p.acceptP("*"):
			t = &LLType{Kind: LLPtrT, Elem: t}
		case p.isW("addrspace"):
			p.fail("addrspace qualified pointer")
		case p.isP("("):
			p.pos++
			ft := &LLType{Kind: LLFuncT, Ret: t}
			for !p.acceptP(")") {
				if p.acceptW("...") {
					ft.VarArg = true
				} else {
					ft.Params = append(ft.Params, p.parseType())
				}
				p.acceptP(",")
			}
			t = ft
		default:
			return t
		}
	}
}

// parseStructBody parses field types after '{' up to and including '}'.
func (p *llParser) parseStructBody() []*LLType {
	var fs []*LLType
	for !p.acceptP("}") {
		fs = append(fs, p.parseType())
		p.acceptP(",")
	}
	return fs
}

func parseIntLit(s string, bits int) (uint64, bool) {
	if s == "" {
		return 0, false
	}
	if s[0] == '-' {
		v, err := strconv.ParseInt(s, 10, 64)
		if err != nil {
			return 0, false
		}
		return uint64(v) & mask(bits), true
	}
	v, err := strconv.ParseUint(s, 10, 64)
	if err != nil {
		return 0, false
	}
	return v & mask(bits), true
}

var llCastOps = map[string]bool{"bitcast": true, "inttoptr": true, "ptrtoint": true, "trunc": true, "zext": true, "sext": true}

// parseValue parses an operand of the given type.
func (p *llParser) parseValue(t *LLType) *LLOperand {
	tok := p.next()
	switch tok.k {
	case '%':
		return &LLOperand{Kind: opLocal, Type: t, Name: tok.s, Slot: -1}
	case '@':
		return &LLOperand{Kind: opGlobal, Type: t, Name: tok.s}
	case 'c':
		return &LLOperand{Kind: opString, Type: t, Str: llUnescape(tok.s)}
	case 'w':
		switch tok.s {
		case "true":
			return &LLOperand{Kind: opInt, Type: t, Int: 1}
		case "false":
			return &LLOperand{Kind: opInt, Type: t, Int: 0}
		case "null":
			return &LLOperand{Kind: opNull, Type: t}
		case "undef", "poison":
			return &LLOperand{Kind: opUndef, Type: t}
		case "zeroinitializer":
			return &LLOperand{Kind: opZero, Type: t}
		case "getelementptr":
			p.acceptW("inbounds")
			p.expectP("(")
			src := p.parseType()
			p.expectP(",")
			o := &LLOperand{Kind: opGEP, Type: t, SrcElem: src}
			for {
				at := p.parseType()
				p.acceptW("inrange")
				o.Elems = append(o.Elems, p.parseValue(at))
				if !p.acceptP(",") {
					break
				}
			}
			p.expectP(")")
			return o
		}
		if llCastOps[tok.s] {
			p.expectP("(")
			st := p.parseType()
			src := p.parseValue(st)
			p.expectW("to")
			dt := p.parseType()
			p.expectP(")")
			return &LLOperand{Kind: opCast, Type: dt, Op: tok.s, Elems: []*LLOperand{src}}
		}
		if t.Kind == LLInt {
			if t.Bits > 64 {
				p.fail("integer constant of type i%d", t.Bits)
			}
			if v, ok := parseIntLit(tok.s, t.Bits); ok {
				return &LLOperand{Kind: opInt, Type: t, Int: v}
			}
		}
		p.fail("constant expression / value %q", tok.s)
	case 'p':
		switch tok.s {
		case "[":
			o := &LLOperand{Kind: opArray, Type: t}
			for !p.acceptP("]") {
				et := p.parseType()
				o.Elems = append(o.Elems, p.parseValue(et))
				p.acceptP(",")
			}
			return o
		case "{":
			o := &LLOperand{Kind: opStruct, Type: t}
			for !p.acceptP("}") {
				et := p.parseType()
				o.Elems = append(o.Elems, p.parseValue(et))
				p.acceptP(",")
			}
			return o
		case "<":
			if !p.acceptP("{") {
				p.fail("vector constant")
			}
			o := &LLOperand{Kind: opStruct, Type: t}
			for !p.acceptP("}") {
				et := p.parseType()
				o.Elems = append(o.Elems, p.parseValue(et))
				p.acceptP(",")
			}
			p.expectP(">")
			return o
		}
	}
	p.fail("value expected, found %q", tok.s)
	return nil
}

// attribute words that may precede/follow types in definitions, calls and parameters (no semantic effect here)
var llAttrWords = map[string]bool{
	"dso_local": true, "dso_preemptable": true, "internal": true, "private": true, "external": true, "weak": true, "linkonce_odr": true,
	"weak_odr": true, "common": true, "available_externally": true, "appending": true, "hidden": true, "protected": true, "default": true,
	"unnamed_addr": true, "local_unnamed_addr": true, "fastcc": true, "ccc": true, "coldcc": true, "zeroext": true, "signext": true,
	"noundef": true, "nonnull": true, "noalias": true, "nocapture": true, "readonly": true, "readnone": true, "writeonly": true,
	"immarg": true, "returned": true, "inreg": true, "nofree": true, "nest": true, "tail": true, "musttail": true, "notail": true,
	"thread_local": true, "externally_initialized": true, "nounwind": true, "volatile": true, "inbounds": true, "swiftself": true,
}

// skipAttrs skips attribute words (with optional parenthesised arguments such as dereferenceable(8), align 4).
func (p *llParser) skipAttrs() {
	for {
		t := p.peek()
		if t.k == '#' {
			p.pos++
			continue
		}
		if t.k != 'w' {
			return
		}
		switch {
		case llAttrWords[t.s]:
			p.pos++
		case t.s == "align":
			p.pos++
			if p.isP("(") {
				p.skipParens()
			} else {
				p.pos++
			}
		case t.s == "dereferenceable" || t.s == "dereferenceable_or_null" || t.s == "byval" || t.s == "sret" || t.s == "byref" ||
			t.s == "preallocated" || t.s == "inalloca" || t.s == "elementtype" || t.s == "allocsize" || t.s == "vscale_range":
			p.pos++
			if p.isP("(") {
				p.skipParens()
			}
		default:
			return
		}
	}
}

func (p *llParser) skipParens() {
	p.expectP("(")
	depth := 1
	for depth > 0 {
		t := p.next()
		if t.k == 0 {
			p.fail("unbalanced parentheses")
		}
		if t.k == 'p' && t.s == "(" {
			depth++
		} else if t.k == 'p' && t.s == ")" {
			depth--
		}
	}
}

func (p *llParser) setLine(i int) {
	p.ln = i
	p.toks = llLex(p.lines[i])
	p.pos = 0
}

var labelRe = regexp.MustCompile(`^([-a-zA-Z$._0-9]+|"[^"]*"):`)

func parseLLModule(prog, text string) (mod *LLModule, err error) {
	mod = &LLModule{Prog: prog, Types: map[string]*LLType{}, Globals: map[string]*LLGlobal{}, Funcs: map[string]*LLFunc{}, Maps: map[string]*LLMapDef{}}
	p := &llParser{mod: mod, lines: strings.Split(text, "\n")}
	defer func() {
		if r := recover(); r != nil {
			if e, ok := r.(llErr); ok {
				err = fmt.Errorf("llir parse: %s", e.msg)
				return
			}
			panic(r)
		}
	}()
	for i := 0; i < len(p.lines); i++ {
		p.setLine(i)
		if len(p.toks) == 0 {
			continue
		}
		t0 := p.toks[0]
		switch {
		case t0.k == 'w' && t0.s == "source_filename":
		case t0.k == 'w' && t0.s == "target":
			if len(p.toks) >= 4 && p.toks[1].s == "datalayout" {
				mod.DataLayout = p.toks[3].s
				if !strings.Contains(mod.DataLayout, "p:64:64") || !strings.HasPrefix(mod.DataLayout, "e-") {
					p.fail("unexpected data layout %q (the layout code assumes little-endian, 64-bit pointers)", mod.DataLayout)
				}
			}
		case t0.k == 'w' && t0.s == "attributes":
		case t0.k == '!':
		case t0.k == 'w' && t0.s == "declare":
			p.pos = 1
			f := p.parseFuncHeader()
			f.Decl = true
			if _, dup := mod.Funcs[f.Name]; !dup {
				mod.Funcs[f.Name] = f
			}
		case t0.k == 'w' && t0.s == "define":
			p.pos = 1
			f := p.parseFuncHeader()
			if !p.acceptP("{") {
				p.fail("expected '{' after function header, found %q", p.peek().s)
			}
			i = p.parseFuncBody(f, i+1)
			mod.Funcs[f.Name] = f
			mod.FuncOrder = append(mod.FuncOrder, f.Name)
		case t0.k == '%' && len(p.toks) >= 3 && p.toks[1].s == "=" && p.toks[2].s == "type":
			p.pos = 3
			nt := p.namedType(t0.s)
			if p.acceptW("opaque") {
				nt.Opaque = true
				break
			}
			packed := false
			if p.acceptP("<") {
				packed = true
			}
			p.expectP("{")
			nt.Fields = p.parseStructBody()
			if packed {
				p.expectP(">")
			}
			nt.Packed = packed
			nt.Opaque = false
		case t0.k == '@':
			p.parseGlobal()
		default:
			p.fail("top-level construct %q", t0.s)
		}
	}
	for _, f := range mod.Funcs {
		if !f.Decl {
			p.resolveFunc(f)
		}
	}
	return mod, nil
}

func (p *llParser) parseGlobal() {
	name := p.next().s
	p.expectP("=")
	g := &LLGlobal{Name: name}
	for {
		t := p.peek()
		if t.k == 'w' && (t.s == "global" || t.s == "constant") {
			g.Const = t.s == "constant"
			p.pos++
			break
		}
		if t.k == 'w' && t.s == "external" {
			g.External = true
		}
		if t.k == 'w' && llAttrWords[t.s] {
			p.pos++
			continue
		}
		if t.k == 'w' && (t.s == "alias" || t.s == "ifunc") {
			p.fail("global %s", t.s)
		}
		p.fail("global variable attribute %q", t.s)
	}
	g.Type = p.parseType()
	if !g.External && p.peek().k != 0 && !p.isP(",") {
		g.Init = p.parseValue(g.Type)
	}
	for p.acceptP(",") {
		t := p.next()
		switch {
		case t.k == 'w' && t.s == "section":
			g.Section = p.next().s
		case t.k == 'w' && t.s == "align":
			p.pos++
		case t.k == '!':
			p.pos++
		case t.k == 'w' && t.s == "comdat":
		default:
			p.fail("global variable suffix %q", t.s)
		}
	}
	p.mod.Globals[name] = g
	p.mod.GlobalOrder = append(p.mod.GlobalOrder, name)
}

func (p *llParser) parseFuncHeader() *LLFunc {
	f := &LLFunc{slotOf: map[string]int{}, blockBy: map[string]*LLBlock{}}
	p.skipAttrs()
	if !p.atTypeStart() {
		p.fail("function header attribute %q", p.peek().s)
	}
	f.Ret = p.parseType()
	nt := p.next()
	if nt.k != '@' {
		p.fail("function name expected, found %q", nt.s)
	}
	f.Name = nt.s
	p.expectP("(")
	unnamed := 0
	for !p.acceptP(")") {
		if p.acceptW("...") {
			f.VarArg = true
			continue
		}
		pt := p.parseType()
		p.skipAttrs()
		prm := LLParam{Type: pt}
		if p.peek().k == '%' {
			prm.Name = p.next().s
		} else {
			prm.Name = strconv.Itoa(unnamed)
			unnamed++
		}
		f.Params = append(f.Params, prm)
		p.acceptP(",")
	}
	// trailing: attributes, section "x", align N, #N ...
	for {
		t := p.peek()
		switch {
		case t.k == 0 || (t.k == 'p' && t.s == "{"):
			return f
		case t.k == 'w' && t.s == "section":
			p.pos++
			f.Section = p.next().s
		case t.k == 'w' && (t.s == "comdat" || t.s == "gc" || t.s == "prefix" || t.s == "prologue" || t.s == "personality"):
			p.fail("function %s clause", t.s)
		case t.k == '!':
			p.pos += 2
		default:
			before := p.pos
			p.skipAttrs()
			if p.pos == before {
				p.fail("function header suffix %q", t.s)
			}
		}
	}
}

func (p *llParser) parseFuncBody(f *LLFunc, start int) int {
	var cur *LLBlock
	unnamed := 0
	for _, prm := range f.Params {
		if _, err := strconv.Atoi(prm.Name); err == nil {
			unnamed++
		}
	}
	newBlock := func(name string) {
		cur = &LLBlock{Name: name, Fn: f}
		if _, dup := f.blockBy[name]; dup {
			p.fail("duplicate block label %q", name)
		}
		f.blockBy[name] = cur
		f.Blocks = append(f.Blocks, cur)
	}
	for i := start; i < len(p.lines); i++ {
		raw := strings.TrimSpace(p.lines[i])
		if raw == "" || raw[0] == ';' {
			continue
		}
		if raw == "}" {
			return i
		}
		if m := labelRe.FindStringSubmatch(raw); m != nil {
			newBlock(strings.Trim(m[1], `"`))
			continue
		}
		if cur == nil {
			newBlock(strconv.Itoa(unnamed))
		}
		p.setLine(i)
		// a switch spans several lines up to the closing ']'
		if strings.Contains(raw, " switch ") || strings.HasPrefix(raw, "switch ") {
			for !strings.Contains(p.lines[i], "]") {
				i++
				if i >= len(p.lines) {
					p.fail("unterminated switch")
				}
				p.toks = append(p.toks, llLex(p.lines[i])...)
			}
		}
		ins := p.parseInstr()
		ins.Line = p.ln + 1
		ins.Text = raw
		ins.Block = cur
		cur.Instrs = append(cur.Instrs, ins)
	}
	p.fail("unterminated function %s", f.Name)
	return 0
}

var llBinOps = map[string]bool{"add": true, "sub": true, "mul": true, "udiv": true, "sdiv": true, "urem": true, "srem": true,
	"shl": true, "lshr": true, "ashr": true, "and": true, "or": true, "xor": true}

func (p *llParser) typedValue() *LLOperand {
	t := p.parseType()
	p.skipAttrs()
	return p.parseValue(t)
}

func (p *llParser) labelRef() string {
	p.expectW("label")
	t := p.next()
	if t.k != '%' {
		p.fail("label reference expected, found %q", t.s)
	}
	return t.s
}

// endInstr checks that only ignorable suffixes (", align N", ", !md !N", "#N") remain.
func (p *llParser) endInstr() {
	for {
		t := p.peek()
		switch {
		case t.k == 0:
			return
		case t.k == '#':
			p.pos++
		case t.k == 'p' && t.s == ",":
			p.pos++
			n := p.next()
			switch {
			case n.k == 'w' && n.s == "align":
				p.pos++
			case n.k == '!':
				p.pos++
			default:
				p.fail("instruction suffix %q", n.s)
			}
		default:
			p.fail("unexpected token %q at end of instruction", t.s)
		}
	}
}

func (p *llParser) parseInstr() *LLInstr {
	ins := &LLInstr{ResSlot: -1}
	if p.peek().k == '%' && p.pos+1 < len(p.toks) && p.toks[p.pos+1].k == 'p' && p.toks[p.pos+1].s == "=" {
		ins.Res = p.next().s
		p.pos++
	}
	for p.isW("tail") || p.isW("musttail") || p.isW("notail") {
		p.pos++
	}
	opTok := p.next()
	if opTok.k != 'w' {
		p.fail("instruction opcode expected, found %q", opTok.s)
	}
	op := opTok.s
	ins.Op = op
	switch {
	case llBinOps[op]:
		for p.isW("nuw") || p.isW("nsw") || p.isW("exact") {
			p.pos++
		}
		ins.Type = p.parseType()
		a := p.parseValue(ins.Type)
		p.expectP(",")
		b := p.parseValue(ins.Type)
		ins.Ops = []*LLOperand{a, b}
	case op == "icmp":
		ins.Pred = p.next().s
		ins.Ty2 = p.parseType()
		a := p.parseValue(ins.Ty2)
		p.expectP(",")
		b := p.parseValue(ins.Ty2)
		ins.Ops = []*LLOperand{a, b}
		ins.Type = &LLType{Kind: LLInt, Bits: 1}
	case op == "fcmp" || op == "fadd" || op == "fsub" || op == "fmul" || op == "fdiv" || op == "frem" || op == "fneg":
		p.fail("floating point instruction %s", op)
	case llCastOps[op]:
		src := p.typedValue()
		p.expectW("to")
		ins.Ty2 = src.Type
		ins.Type = p.parseType()
		ins.Ops = []*LLOperand{src}
	case op == "alloca":
		ins.Ty2 = p.parseType()
		ins.Type = &LLType{Kind: LLPtrT, Elem: ins.Ty2}
		if p.isP(",") && p.pos+1 < len(p.toks) && p.toks[p.pos+1].k == 'w' && p.toks[p.pos+1].s != "align" && p.toks[p.pos+1].s != "addrspace" {
			p.pos++
			ins.Ops = []*LLOperand{p.typedValue()}
		}
	case op == "load":
		p.acceptW("volatile")
		if p.isW("atomic") {
			p.fail("atomic load")
		}
		ins.Type = p.parseType()
		p.expectP(",")
		ins.Ops = []*LLOperand{p.typedValue()}
	case op == "store":
		p.acceptW("volatile")
		if p.isW("atomic") {
			p.fail("atomic store")
		}
		v := p.typedValue()
		p.expectP(",")
		ptr := p.typedValue()
		ins.Type = v.Type
		ins.Ops = []*LLOperand{v, ptr}
	case op == "getelementptr":
		p.acceptW("inbounds")
		ins.Ty2 = p.parseType()
		p.expectP(",")
		for {
			ins.Ops = append(ins.Ops, p.typedValue())
			if !(p.isP(",") && p.pos+1 < len(p.toks) && p.toks[p.pos+1].k != '!') {
				break
			}
			p.pos++
		}
		ins.Type = &LLType{Kind: LLPtrT, Elem: &LLType{Kind: LLInt, Bits: 8}}
	case op == "select":
		c := p.typedValue()
		p.expectP(",")
		a := p.typedValue()
		p.expectP(",")
		b := p.typedValue()
		ins.Type = a.Type
		ins.Ops = []*LLOperand{c, a, b}
	case op == "phi":
		ins.Type = p.parseType()
		for {
			p.expectP("[")
			v := p.parseValue(ins.Type)
			p.expectP(",")
			l := p.next()
			if l.k != '%' {
				p.fail("phi predecessor label expected")
			}
			p.expectP("]")
			ins.Ops = append(ins.Ops, v)
			ins.Labels = append(ins.Labels, l.s)
			if !(p.isP(",") && p.pos+1 < len(p.toks) && p.toks[p.pos+1].k == 'p' && p.toks[p.pos+1].s == "[") {
				break
			}
			p.pos++
		}
	case op == "br":
		if p.isW("label") {
			ins.Labels = []string{p.labelRef()}
		} else {
			c := p.typedValue()
			p.expectP(",")
			l1 := p.labelRef()
			p.expectP(",")
			l2 := p.labelRef()
			ins.Ops = []*LLOperand{c}
			ins.Labels = []string{l1, l2}
		}
	case op == "switch":
		v := p.typedValue()
		p.expectP(",")
		ins.Ops = []*LLOperand{v}
		ins.Labels = []string{p.labelRef()}
		p.expectP("[")
		for !p.acceptP("]") {
			c := p.typedValue()
			if c.Kind != opInt {
				p.fail("non-integer switch case")
			}
			p.expectP(",")
			ins.Cases = append(ins.Cases, c.Int)
			ins.Labels = append(ins.Labels, p.labelRef())
		}
	case op == "ret":
		t := p.parseType()
		ins.Type = t
		if t.Kind != LLVoid {
			ins.Ops = []*LLOperand{p.parseValue(t)}
		}
	case op == "unreachable":
	case op == "fence":
		p.acceptW("syncscope")
		if p.isP("(") {
			p.skipParens()
		}
		p.pos++ // ordering
	case op == "call":
		p.skipAttrs()
		rt := p.parseType()
		if rt.Kind == LLFuncT {
			rt = rt.Ret
		} else if rt.Kind == LLPtrT && rt.Elem.Kind == LLFuncT && p.peek().k != '@' && p.peek().k != '%' {
			rt = rt.Elem.Ret
		}
		ins.Type = rt
		ct := p.next()
		switch ct.k {
		case '@':
			ins.Callee = ct.s
		case '%':
			p.fail("indirect call through %%%s", ct.s)
		default:
			if ct.k == 'w' && ct.s == "asm" {
				p.fail("inline asm call")
			}
			p.fail("call through constant expression %q (helpers must be declared as named externs in the shim header)", ct.s)
		}
		p.expectP("(")
		for !p.acceptP(")") {
			at := p.parseType()
			p.skipAttrs()
			if at.Kind == LLMetaT {
				// metadata argument of a debug intrinsic: skip to the next ',' or ')'
				depth := 0
				for {
					t := p.peek()
					if t.k == 0 {
						p.fail("unterminated metadata argument")
					}
					if t.k == 'p' && (t.s == "(" || t.s == "{") {
						depth++
					} else if t.k == 'p' && (t.s == ")" || t.s == "}") {
						if depth == 0 {
							break
						}
						depth--
					} else if t.k == 'p' && t.s == "," && depth == 0 {
						break
					}
					p.pos++
				}
				ins.Ops = append(ins.Ops, &LLOperand{Kind: opUndef, Type: at})
			} else {
				ins.Ops = append(ins.Ops, p.parseValue(at))
			}
			p.acceptP(",")
		}
		p.skipAttrs()
	case op == "atomicrmw":
		p.acceptW("volatile")
		ins.Pred = p.next().s
		ptr := p.typedValue()
		p.expectP(",")
		v := p.typedValue()
		ins.Type = v.Type
		ins.Ops = []*LLOperand{ptr, v}
		p.acceptW("syncscope")
		if p.isP("(") {
			p.skipParens()
		}
		p.pos++ // ordering
	case op == "cmpxchg":
		p.acceptW("weak")
		p.acceptW("volatile")
		ptr := p.typedValue()
		p.expectP(",")
		c := p.typedValue()
		p.expectP(",")
		n := p.typedValue()
		ins.Ops = []*LLOperand{ptr, c, n}
		ins.Ty2 = c.Type
		ins.Type = &LLType{Kind: LLStruct, Fields: []*LLType{c.Type, {Kind: LLInt, Bits: 1}}}
		p.acceptW("syncscope")
		if p.isP("(") {
			p.skipParens()
		}
		p.pos += 2 // two orderings
	case op == "extractvalue":
		agg := p.typedValue()
		ins.Ops = []*LLOperand{agg}
		t := agg.Type
		for p.isP(",") && p.pos+1 < len(p.toks) && p.toks[p.pos+1].k == 'w' {
			p.pos++
			ix, err := strconv.Atoi(p.next().s)
			if err != nil {
				p.fail("extractvalue index")
			}
			ins.Idx = append(ins.Idx, ix)
			t = aggElemType(t, ix, p)
		}
		ins.Type = t
	case op == "insertvalue":
		agg := p.typedValue()
		p.expectP(",")
		v := p.typedValue()
		ins.Ops = []*LLOperand{agg, v}
		for p.isP(",") && p.pos+1 < len(p.toks) && p.toks[p.pos+1].k == 'w' {
			p.pos++
			ix, err := strconv.Atoi(p.next().s)
			if err != nil {
				p.fail("insertvalue index")
			}
			ins.Idx = append(ins.Idx, ix)
		}
		ins.Type = agg.Type
	default:
		p.fail("unsupported instruction %q", op)
	}
	p.endInstr()
	return ins
}

func aggElemType(t *LLType, ix int, p *llParser) *LLType {
	switch t.Kind {
	case LLStruct:
		if ix < len(t.Fields) {
			return t.Fields[ix]
		}
	case LLArray:
		return t.Elem
	}
	p.fail("aggregate index %d into %s", ix, t)
	return nil
}

// resolveFunc assigns register slots and resolves labels.
func (p *llParser) resolveFunc(f *LLFunc) {
	slot := func(name string) int {
		if s, ok := f.slotOf[name]; ok {
			return s
		}
		s := f.NSlots
		f.NSlots++
		f.slotOf[name] = s
		return s
	}
	for i := range f.Params {
		f.Params[i].Slot = slot(f.Params[i].Name)
	}
	defined := map[string]bool{}
	for _, prm := range f.Params {
		defined[prm.Name] = true
	}
	for _, b := range f.Blocks {
		for _, ins := range b.Instrs {
			if ins.Res != "" {
				if defined[ins.Res] {
					llFail("%s: register %%%s defined twice", f.Name, ins.Res)
				}
				defined[ins.Res] = true
				ins.ResSlot = slot(ins.Res)
			}
		}
	}
	var fix func(o *LLOperand, ins *LLInstr)
	fix = func(o *LLOperand, ins *LLInstr) {
		if o == nil {
			return
		}
		if o.Kind == opLocal {
			if !defined[o.Name] {
				llFail("%s.ll:%d: use of undefined register %%%s", p.mod.Prog, ins.Line, o.Name)
			}
			o.Slot = slot(o.Name)
		}
		for _, e := range o.Elems {
			fix(e, ins)
		}
	}
	for _, b := range f.Blocks {
		if len(b.Instrs) == 0 {
			llFail("%s: empty block %s", f.Name, b.Name)
		}
		for _, ins := range b.Instrs {
			for _, o := range ins.Ops {
				fix(o, ins)
			}
			for _, l := range ins.Labels {
				tb := f.blockBy[l]
				if tb == nil {
					llFail("%s.ll:%d: unknown label %%%s", p.mod.Prog, ins.Line, l)
				}
				ins.Blocks = append(ins.Blocks, tb)
			}
		}
		switch b.Instrs[len(b.Instrs)-1].Op {
		case "br", "switch", "ret", "unreachable":
		default:
			llFail("%s: block %s does not end in a terminator", f.Name, b.Name)
		}
	}
	for _, b := range f.Blocks {
		for _, tb := range b.Instrs[len(b.Instrs)-1].Blocks {
			tb.NPreds++
		}
	}
	// if-conversion plans
	side := func(b, from *LLBlock) *LLBlock { // returns the join if b is a speculable side block
		if b == from || b.NPreds != 1 || len(b.Instrs) > 24 {
			return nil
		}
		for i, ins := range b.Instrs {
			last := i == len(b.Instrs)-1
			switch {
			case last:
				if ins.Op != "br" || len(ins.Blocks) != 1 {
					return nil
				}
			case llBinOps[ins.Op], llCastOps[ins.Op], ins.Op == "getelementptr", ins.Op == "icmp", ins.Op == "select",
				ins.Op == "load", ins.Op == "store", ins.Op == "atomicrmw":
			case ins.Op == "call" && (strings.HasPrefix(ins.Callee, "llvm.lifetime.") || strings.HasPrefix(ins.Callee, "llvm.dbg.")):
			default:
				return nil
			}
		}
		return b.Instrs[len(b.Instrs)-1].Blocks[0]
	}
	for _, b := range f.Blocks {
		ins := b.Instrs[len(b.Instrs)-1]
		if ins.Op != "br" || len(ins.Blocks) != 2 || ins.Blocks[0] == ins.Blocks[1] {
			continue
		}
		t, fl := ins.Blocks[0], ins.Blocks[1]
		jt, jf := side(t, b), side(fl, b)
		switch {
		case jt != nil && jf != nil && jt == jf && jt != b && jt != t && jt != fl:
			ins.Spec = &LLSpec{SideT: t, SideF: fl, Join: jt}
		case jt != nil && jt == fl && fl != b:
			ins.Spec = &LLSpec{SideT: t, Join: fl}
		case jf != nil && jf == t && t != b:
			ins.Spec = &LLSpec{SideF: fl, Join: t}
		}
	}
}

// precomputeLayouts computes the layout caches of every sized type reachable from the module while it is still owned
// by one goroutine (the parsed module is shared read-only between workers afterwards).
func (mod *LLModule) precomputeLayouts() {
	seen := map[*LLType]bool{}
	var visit func(t *LLType)
	visit = func(t *LLType) {
		if t == nil || seen[t] {
			return
		}
		seen[t] = true
		visit(t.Elem)
		visit(t.Ret)
		for _, f := range t.Fields {
			visit(f)
		}
		for _, f := range t.Params {
			visit(f)
		}
		switch t.Kind {
		case LLInt, LLPtrT, LLArray, LLStruct:
			func() {
				defer func() { recover() }() // opaque / unsized: reported when (if) actually used
				t.layout()
			}()
		}
	}
	var visitOp func(o *LLOperand)
	visitOp = func(o *LLOperand) {
		if o == nil {
			return
		}
		visit(o.Type)
		visit(o.SrcElem)
		for _, e := range o.Elems {
			visitOp(e)
		}
	}
	for _, t := range mod.Types {
		visit(t)
	}
	for _, g := range mod.Globals {
		visit(g.Type)
		visitOp(g.Init)
	}
	for _, f := range mod.Funcs {
		visit(f.Ret)
		for _, p := range f.Params {
			visit(p.Type)
		}
		for _, b := range f.Blocks {
			for _, ins := range b.Instrs {
				visit(ins.Type)
				visit(ins.Ty2)
				for _, o := range ins.Ops {
					visitOp(o)
				}
			}
		}
	}
}

// ---- map definitions ----

var (
	mapBlockRe = regexp.MustCompile(`(?s)struct\s*\{([^{}]*)\}\s*(\w+)\s+SEC\(\s*"\.maps"\s*\)`)
	mapFieldRe = regexp.MustCompile(`__(uint|type|array)\(\s*(\w+)\s*,`)
)

// mapFieldNames extracts, from C source text, the ordered field names of every BTF-style map definition.
func mapFieldNames(src string) map[string][]string {
	out := map[string][]string{}
	for _, m := range mapBlockRe.FindAllStringSubmatch(src, -1) {
		var names []string
		for _, f := range mapFieldRe.FindAllStringSubmatch(m[1], -1) {
			names = append(names, f[2])
		}
		out[m[2]] = names
	}
	return out
}

// extractMaps decodes the map definitions (globals in section ".maps"). Field names are not part of the IR
// (no debug info), they come from the C source (names); without them a positional convention is used.
func (mod *LLModule) extractMaps(names map[string][]string) error {
	for _, gn := range mod.GlobalOrder {
		g := mod.Globals[gn]
		if g.Section != ".maps" {
			continue
		}
		st := g.Type
		if st.Kind != LLStruct {
			return fmt.Errorf("llir: map %s: definition is not a struct", gn)
		}
		fn := names[gn]
		if len(fn) != len(st.Fields) {
			// positional convention: [N x i32]* fields are type, max_entries (or key_size, value_size for 3), others key, value
			fn = nil
			nu, nt := 0, 0
			for _, f := range st.Fields {
				if f.Kind == LLPtrT && f.Elem.Kind == LLArray && f.Elem.Elem.Kind == LLInt && f.Elem.Elem.Bits == 32 {
					fn = append(fn, []string{"type", "max_entries", "map_flags", "?"}[min(nu, 3)])
					nu++
				} else {
					fn = append(fn, []string{"key", "value", "?"}[min(nt, 2)])
					nt++
				}
			}
		}
		d := &LLMapDef{Name: gn}
		for i, f := range st.Fields {
			if f.Kind != LLPtrT {
				return fmt.Errorf("llir: map %s: field %d (%s) is not a pointer", gn, i, fn[i])
			}
			uintVal := func() (int, error) {
				if f.Elem.Kind != LLArray {
					return 0, fmt.Errorf("llir: map %s: field %s is not encoded as int(*)[N]", gn, fn[i])
				}
				return f.Elem.N, nil
			}
			var err error
			switch fn[i] {
			case "type":
				d.Type, err = uintVal()
			case "max_entries":
				d.MaxEntries, err = uintVal()
			case "key_size":
				d.KeySize, err = uintVal()
			case "value_size":
				d.ValSize, err = uintVal()
			case "map_flags":
				d.Flags, err = uintVal()
			case "key":
				func() {
					defer func() {
						if r := recover(); r != nil {
							err = fmt.Errorf("llir: map %s: key type: %v", gn, r)
						}
					}()
					d.KeySize = f.Elem.Size()
				}()
			case "value":
				func() {
					defer func() {
						if r := recover(); r != nil {
							err = fmt.Errorf("llir: map %s: value type: %v", gn, r)
						}
					}()
					d.ValSize = f.Elem.Size()
				}()
			case "pinning", "numa_node", "map_extra":
			default:
				return fmt.Errorf("llir: map %s: unknown definition field %q", gn, fn[i])
			}
			if err != nil {
				return err
			}
		}
		mod.Maps[gn] = d
		mod.MapOrder = append(mod.MapOrder, gn)
	}
	return nil
}
