package main

// Persistent SMT solver process (z3 -in / z3-new -in / cvc5 --incremental) with push/pop scopes.
// Definitions (one define-fun per non-leaf term node) are tracked per scope.

import (
	"bufio"
	"fmt"
	"io"
	"os"
	"os/exec"
	"strconv"
	"strings"
	"time"
)

type SatResult int

const (
	Unsat SatResult = iota
	Sat
	Unknown
)

func (r SatResult) String() string { return [...]string{"unsat", "sat", "unknown"}[r] }

type SolverStats struct {
	Sat, Unsat, Unknown int
	Time                time.Duration
	Errors              int
}

type Solver struct {
	kind    string
	cmd     *exec.Cmd
	in      *bufio.Writer
	out     *bufio.Reader
	stdin   io.WriteCloser
	defined map[string]bool
	scopes  [][]string
	script  [][]string // per scope: declarations, definitions and assertions (for one-shot re-solving)
	Stats   SolverStats
	log     *os.File
	timeout int
	dead    bool
}

func NewSolver(kind string, timeoutMs int) (*Solver, error) {
	var cmd *exec.Cmd
	switch kind {
	case "z3":
		cmd = exec.Command("/usr/bin/z3", "-in", "-smt2")
	case "z3-new":
		cmd = exec.Command("z3-new", "-in", "-smt2")
	case "cvc5":
		cmd = exec.Command("cvc5", "--incremental", "--lang=smt2", "--produce-models", fmt.Sprintf("--tlimit-per=%d", timeoutMs))
	case "cvc5-int":
		cmd = exec.Command("cvc5", "--incremental", "--lang=smt2", "--produce-models", "--solve-bv-as-int=sum", fmt.Sprintf("--tlimit-per=%d", timeoutMs))
	default:
		return nil, fmt.Errorf("unknown solver %q", kind)
	}
	stdin, err := cmd.StdinPipe()
	if err != nil {
		return nil, err
	}
	stdout, err := cmd.StdoutPipe()
	if err != nil {
		return nil, err
	}
	cmd.Stderr = nil
	if err := cmd.Start(); err != nil {
		return nil, err
	}
	s := &Solver{kind: kind, cmd: cmd, stdin: stdin, in: bufio.NewWriterSize(stdin, 1<<16), out: bufio.NewReaderSize(stdout, 1<<16),
		defined: map[string]bool{}, scopes: [][]string{nil}, script: [][]string{nil}, timeout: timeoutMs}
	if p := os.Getenv("VERIF_SMTLOG"); p != "" {
		s.log, _ = os.CreateTemp("", "smt-*.smt2")
	}
	if strings.HasPrefix(kind, "z3") {
		s.send("(set-option :timeout %d)", timeoutMs)
	}
	s.send("(set-option :produce-models true)")
	if strings.HasPrefix(kind, "cvc5") {
		s.send("(set-logic ALL)")
	}
	return s, nil
}

func (s *Solver) send(format string, args ...interface{}) {
	str := fmt.Sprintf(format, args...)
	if strings.HasPrefix(str, "(de") || strings.HasPrefix(str, "(assert") {
		i := len(s.script) - 1
		s.script[i] = append(s.script[i], str)
	}
	s.in.WriteString(str)
	s.in.WriteByte('\n')
	if s.log != nil {
		s.log.WriteString(str + "\n")
	}
}

// sendRaw writes to the solver without recording the line in the replayable script.
func (s *Solver) sendRaw(format string, args ...interface{}) {
	str := fmt.Sprintf(format, args...)
	s.in.WriteString(str)
	s.in.WriteByte('\n')
	if s.log != nil {
		s.log.WriteString(str + "\n")
	}
}

func (s *Solver) Close() {
	if s.dead {
		return
	}
	s.dead = true
	s.send("(exit)")
	s.in.Flush()
	s.stdin.Close()
	done := make(chan struct{})
	go func() { s.cmd.Wait(); close(done) }()
	select {
	case <-done:
	case <-time.After(2 * time.Second):
		s.cmd.Process.Kill()
	}
}

func (s *Solver) Push() {
	s.send("(push 1)")
	s.scopes = append(s.scopes, nil)
	s.script = append(s.script, nil)
}

func (s *Solver) Pop() {
	top := s.scopes[len(s.scopes)-1]
	for _, n := range top {
		delete(s.defined, n)
	}
	s.scopes = s.scopes[:len(s.scopes)-1]
	s.script = s.script[:len(s.script)-1]
	s.send("(pop 1)")
}

func (s *Solver) markDefined(n string) {
	s.defined[n] = true
	i := len(s.scopes) - 1
	s.scopes[i] = append(s.scopes[i], n)
}

// define makes sure every node of t is declared/defined in the current scope.
func (s *Solver) define(t *Term) {
	switch t.Op {
	case OpConst:
		return
	case OpVar:
		if !s.defined[t.Name] {
			s.send("(declare-const %s %s)", t.Name, sortOf(t.W))
			s.markDefined(t.Name)
		}
		return
	}
	n := refName(t)
	if s.defined[n] {
		return
	}
	for _, a := range t.A {
		s.define(a)
	}
	if t.Op == OpUF {
		key := "uf:" + t.Name
		if !s.defined[key] {
			var sb strings.Builder
			for _, a := range t.A {
				sb.WriteString(sortOf(a.W) + " ")
			}
			s.send("(declare-fun %s (%s) %s)", t.Name, sb.String(), sortOf(t.W))
			s.markDefined(key)
		}
	}
	s.send("(define-fun %s () %s %s)", n, sortOf(t.W), exprOf(t))
	s.markDefined(n)
}

func (s *Solver) Assert(t *Term) {
	if t.IsTrue() {
		return
	}
	s.define(t)
	s.send("(assert %s)", refName(t))
}

func (s *Solver) readAnswer() (SatResult, string) {
	var errs []string
	for {
		line, err := s.out.ReadString('\n')
		if err != nil {
			s.dead = true
			return Unknown, "solver died: " + err.Error() + " " + strings.Join(errs, ";")
		}
		line = strings.TrimSpace(line)
		switch {
		case line == "sat":
			if len(errs) > 0 {
				return Unknown, strings.Join(errs, ";")
			}
			return Sat, ""
		case line == "unsat":
			if len(errs) > 0 {
				return Unknown, strings.Join(errs, ";")
			}
			return Unsat, ""
		case line == "unknown" || line == "timeout":
			return Unknown, line + strings.Join(errs, ";")
		case strings.HasPrefix(line, "(error"):
			errs = append(errs, line)
			s.Stats.Errors++
		case line == "":
		default:
			errs = append(errs, "unexpected: "+line)
		}
	}
}

// Check asks whether the current assertions plus extra are satisfiable. If wantModel and the answer is sat,
// the values of vars are returned.
func (s *Solver) Check(extra *Term, wantModel bool, vars []*Term) (SatResult, map[string]uint64, string) {
	if s.dead {
		return Unknown, nil, "solver dead"
	}
	t0 := time.Now()
	if extra != nil {
		s.define(extra)
	}
	for _, v := range vars {
		s.define(v)
	}
	s.send("(push 1)")
	if extra != nil {
		// temporary: must not enter the recorded script (sendRaw does not record)
		s.sendRaw("(assert %s)", refName(extra))
	}
	s.send("(check-sat)")
	s.in.Flush()
	res, msg := s.readAnswer()
	var model map[string]uint64
	if res == Sat && wantModel && len(vars) > 0 {
		var sb strings.Builder
		sb.WriteString("(get-value (")
		for _, v := range vars {
			sb.WriteString(refName(v) + " ")
		}
		sb.WriteString("))")
		s.send("%s", sb.String())
		s.in.Flush()
		txt, err := s.readSexp()
		if err != nil {
			res, msg = Unknown, "get-value: "+err.Error()
		} else {
			model = parseModel(txt)
		}
	}
	s.send("(pop 1)")
	switch res {
	case Sat:
		s.Stats.Sat++
	case Unsat:
		s.Stats.Unsat++
	default:
		s.Stats.Unknown++
	}
	s.Stats.Time += time.Since(t0)
	return res, model, msg
}

// readSexp reads one balanced s-expression from the solver.
func (s *Solver) readSexp() (string, error) {
	var sb strings.Builder
	depth, started := 0, false
	for {
		b, err := s.out.ReadByte()
		if err != nil {
			s.dead = true
			return "", err
		}
		sb.WriteByte(b)
		if b == '(' {
			depth++
			started = true
		} else if b == ')' {
			depth--
		}
		if started && depth == 0 {
			return sb.String(), nil
		}
	}
}

func parseModel(txt string) map[string]uint64 {
	m := map[string]uint64{}
	// entries look like (name #x0a) (name #b1) (name true) ; tokenise
	toks := strings.Fields(strings.NewReplacer("(", " ( ", ")", " ) ").Replace(txt))
	for i := 0; i+3 < len(toks); i++ {
		if toks[i] == "(" && toks[i+1] != "(" && toks[i+3] == ")" {
			name, val := toks[i+1], toks[i+2]
			switch {
			case val == "true":
				m[name] = 1
			case val == "false":
				m[name] = 0
			case strings.HasPrefix(val, "#x"):
				v, _ := strconv.ParseUint(val[2:], 16, 64)
				m[name] = v
			case strings.HasPrefix(val, "#b"):
				v, _ := strconv.ParseUint(val[2:], 2, 64)
				m[name] = v
			}
		}
	}
	return m
}

// DumpQuery writes the current assertions plus extra as a stand-alone SMT-LIB2 script (debugging aid).
func (s *Solver) DumpQuery(extra *Term, path string) {
	s.define(extra)
	var sb strings.Builder
	sb.WriteString("(set-logic ALL)\n(set-option :produce-models true)\n")
	for _, sc := range s.script {
		for _, l := range sc {
			sb.WriteString(l)
			sb.WriteByte('\n')
		}
	}
	fmt.Fprintf(&sb, "(assert %s)\n(check-sat)\n(get-model)\n", refName(extra))
	os.WriteFile(path, []byte(sb.String()), 0o644)
}

// Resolve re-asks the current assertions plus extra in fresh one-shot solver processes (different engines and a
// longer time limit). Used when the incremental solver answers unknown on an assertion query.
func (s *Solver) Resolve(extra *Term, seconds int) SatResult {
	s.define(extra)
	var sb strings.Builder
	sb.WriteString("(set-logic ALL)\n")
	for _, sc := range s.script {
		for _, l := range sc {
			sb.WriteString(l)
			sb.WriteByte('\n')
		}
	}
	fmt.Fprintf(&sb, "(assert %s)\n(check-sat)\n", refName(extra))
	text := sb.String()
	for _, cmdline := range [][]string{
		{"z3-new", "-in", "-smt2", fmt.Sprintf("-T:%d", seconds)},
		{"/usr/bin/z3", "-in", "-smt2", fmt.Sprintf("-T:%d", seconds)},
		{"cvc5", "--lang=smt2", fmt.Sprintf("--tlimit=%d", seconds*1000)},
	} {
		cmd := exec.Command(cmdline[0], cmdline[1:]...)
		cmd.Stdin = strings.NewReader(text)
		out, _ := cmd.Output()
		ans := strings.TrimSpace(string(out))
		if strings.Contains(ans, "(error") {
			continue
		}
		if strings.HasPrefix(ans, "unsat") {
			s.Stats.Unsat++
			return Unsat
		}
		if strings.HasPrefix(ans, "sat") {
			s.Stats.Sat++
			return Sat
		}
	}
	return Unknown
}
