//go:build llir

package main

// Stand-alone driver for the LLVM-IR front end:  bngsym bpf ...  and  bngsym bpf-selftest ...

import (
	"bytes"
	"encoding/hex"
	"flag"
	"fmt"
	"math/rand"
	"os"
	"os/exec"
	"path/filepath"
	"runtime/debug"
	"sort"
	"strings"
	"sync"
	"time"
)

// newBareInterp makes an interpreter without a Go program (used by the bpf driver; the BPF front end only needs
// the term context, the solver and the path state).
func newBareInterp(solver *Solver, cfg *Config, name string) *Interp {
	in := &Interp{tc: NewTermCtx(), solver: solver, cfg: cfg, harness: name,
		funcsSeen: map[string]bool{}, stubsUsed: map[string]bool{}, params: map[string]int{}}
	in.env = newEnv(in)
	in.runtimeErrT = &opaqueType{"runtime.Error"}
	return in
}

type ExploreResult struct {
	Name        string
	Paths       int
	Ends        map[string]int
	Violations  []*Violation
	Unsupported map[string]int
	Bounds      map[string]int
	EngineErrs  []string
	Inexact     int
	Unknowns    map[string]int
	Queries     SolverStats
	Instrs      int
	Wall        float64
	Truncated   bool
}

// explore runs body over all paths (re-execution along decision prefixes, like Runner.RunHarness) with n workers.
// collect is called under a lock with the value returned by body on paths that ended normally (nil otherwise).
func explore(cfg Config, workers int, name string, body func(in *Interp) interface{}, collect func(out interface{}, res *PathResult, in *Interp)) *ExploreResult {
	t0 := time.Now()
	er := &ExploreResult{Name: name, Ends: map[string]int{}, Unsupported: map[string]int{}, Bounds: map[string]int{}, Unknowns: map[string]int{}}
	var mu sync.Mutex
	cond := sync.NewCond(&mu)
	queue := [][]Decision{nil}
	active, started := 0, 0
	seen := map[string]bool{}
	var wg sync.WaitGroup
	stopProgress := make(chan struct{})
	if os.Getenv("VERIF_PROGRESS") != "" {
		go func() {
			tk := time.NewTicker(10 * time.Second)
			defer tk.Stop()
			for {
				select {
				case <-stopProgress:
					return
				case <-tk.C:
					mu.Lock()
					fmt.Fprintf(os.Stderr, "[%s %.0fs] paths=%d queue=%d active=%d ends=%v violations=%d\n", name, time.Since(t0).Seconds(), er.Paths, len(queue), active, er.Ends, len(er.Violations))
					mu.Unlock()
				}
			}
		}()
	}
	for w := 0; w < workers; w++ {
		wg.Add(1)
		go func() {
			defer wg.Done()
			solver, err := NewSolver(cfg.SolverKind, cfg.TimeoutMs)
			if err != nil {
				mu.Lock()
				er.EngineErrs = append(er.EngineErrs, "solver: "+err.Error())
				mu.Unlock()
				return
			}
			defer func() {
				mu.Lock()
				er.Queries.Sat += solver.Stats.Sat
				er.Queries.Unsat += solver.Stats.Unsat
				er.Queries.Unknown += solver.Stats.Unknown
				er.Queries.Time += solver.Stats.Time
				er.Queries.Errors += solver.Stats.Errors
				mu.Unlock()
				solver.Close()
			}()
			for {
				mu.Lock()
				for len(queue) == 0 && active > 0 {
					cond.Wait()
				}
				if len(queue) == 0 && active == 0 {
					mu.Unlock()
					cond.Broadcast()
					return
				}
				if started >= cfg.MaxPaths {
					er.Truncated = true
					queue = nil
					for active > 0 {
						cond.Wait()
					}
					mu.Unlock()
					cond.Broadcast()
					return
				}
				prefix := queue[len(queue)-1]
				queue = queue[:len(queue)-1]
				active++
				started++
				mu.Unlock()

				if solver.dead {
					solver.Close()
					solver, _ = NewSolver(cfg.SolverKind, cfg.TimeoutMs)
				}
				res, in, out := runBarePath(solver, &cfg, name, prefix, body)

				mu.Lock()
				active--
				er.Paths++
				er.Ends[endNames[res.End]]++
				er.Instrs += in.instrs
				if res.Inexact {
					er.Inexact++
				}
				for _, u := range res.Unknowns {
					er.Unknowns[firstLine(u)]++
				}
				switch res.End {
				case EndUnsupported:
					er.Unsupported[res.Msg]++
					if res.EngineErr != "" && len(er.EngineErrs) < 5 {
						er.EngineErrs = append(er.EngineErrs, res.EngineErr)
					}
				case EndUnwind, EndSteps:
					er.Bounds[res.Msg]++
				}
				for _, v := range res.Violations {
					if !seen[v.Key] {
						seen[v.Key] = true
						er.Violations = append(er.Violations, v)
					}
				}
				if collect != nil {
					collect(out, &res, in)
				}
				if !er.Truncated {
					queue = append(queue, res.Forks...)
				}
				mu.Unlock()
				cond.Broadcast()
			}
		}()
	}
	wg.Wait()
	close(stopProgress)
	er.Wall = time.Since(t0).Seconds()
	sort.Slice(er.Violations, func(i, j int) bool { return er.Violations[i].Key < er.Violations[j].Key })
	return er
}

func runBarePath(solver *Solver, cfg *Config, name string, prefix []Decision, body func(in *Interp) interface{}) (res PathResult, in *Interp, out interface{}) {
	in = newBareInterp(solver, cfg, name)
	in.path = &PathState{prefix: prefix, reached: map[string]bool{}}
	solver.Push()
	defer solver.Pop()
	defer func() {
		p := in.path
		res.Forks = p.forks
		res.Steps = p.steps
		res.Inexact = p.inexact
		res.Unknowns = p.unknowns
		res.Violations = p.violations
		res.NDCount = len(p.nd)
		if rec := recover(); rec != nil {
			out = nil
			switch e := rec.(type) {
			case pathEnd:
				res.End, res.Msg = e.Kind, e.Msg
			default:
				res.End = EndUnsupported
				res.EngineErr = fmt.Sprintf("engine error: %v\n%s", rec, debug.Stack())
				res.Msg = fmt.Sprintf("engine error: %v", rec)
			}
		}
	}()
	out = body(in)
	res.End = EndNormal
	return
}

// ---- bngsym bpf ----

type bpfPathOut struct {
	merged  int
	verdict uint64
	lenAft  string
	events  int
}

func cmdBPF(args []string) int {
	fs := flag.NewFlagSet("bpf", flag.ExitOnError)
	prog := fs.String("prog", "", "program (file name in <repo>/bpf without .c)")
	entry := fs.String("entry", "", "entry point (default: every SEC(\"tc...\")/SEC(\"xdp\") function)")
	kind := fs.String("kind", "", "xdp | tc (default: from the section name)")
	L := fs.Int("L", 64, "maximum packet length (the packet has symbolic length 0..L)")
	minL := fs.Int("minL", 0, "minimum packet length")
	maps := fs.String("maps", "symbolic", "symbolic | empty")
	mapOv := fs.String("map", "", "per-map overrides: name=symbolic|empty[,name=...]")
	maxHits := fs.Int("maxhits", 0, "bound on the arbitrary entries a symbolic map may reveal per path (0 = unlimited)")
	workers := fs.Int("workers", 6, "")
	solver := fs.String("solver", "z3-new", "")
	timeout := fs.Int("timeout", 20000, "solver timeout per query (ms)")
	unwind := fs.Int("unwind", 0, "")
	maxPaths := fs.Int("maxpaths", 0, "")
	verbose := fs.Bool("v", false, "print all witness values")
	listOnly := fs.Bool("list", false, "only parse and list functions, maps and entry points")
	check := fs.Bool("check", false, "self-check: replay every finished path concretely from its model (no if-conversion) and compare verdict, packet and maps")
	ifconv := fs.String("ifconv", "", "if-conversion mode: pure (default) | full | off")
	fs.Parse(args)
	if *prog == "" {
		fmt.Fprintln(os.Stderr, "usage: bngsym bpf -prog antispoof [-entry antispoof_ingress -kind tc] -L 64 [-maps symbolic|empty]")
		return 2
	}
	t0 := time.Now()
	mod, err := loadBPFModule(*prog)
	if err != nil {
		fmt.Fprintln(os.Stderr, err)
		fmt.Printf("INCONCLUSIVE bpf prog=%s reason=%q\n", *prog, firstLine(err.Error()))
		return 2
	}
	fmt.Printf("bpf/%s.c: IR built and parsed in %.2fs: %d functions, %d globals, %d maps\n", *prog, time.Since(t0).Seconds(), len(mod.Funcs), len(mod.Globals), len(mod.Maps))
	for _, n := range mod.MapOrder {
		d := mod.Maps[n]
		fmt.Printf("  map %-24s type=%-2d key=%-3d value=%-3d max_entries=%d\n", n, d.Type, d.KeySize, d.ValSize, d.MaxEntries)
	}
	eps := mod.bpfEntryPoints()
	for _, e := range eps {
		fmt.Printf("  entry %s (%s)\n", e[0], e[1])
	}
	if *listOnly {
		for _, fn := range mod.FuncOrder {
			f := mod.Funcs[fn]
			n := 0
			for _, b := range f.Blocks {
				n += len(b.Instrs)
			}
			fmt.Printf("  func %s: %d blocks, %d instructions\n", fn, len(f.Blocks), n)
		}
		return 0
	}
	if *entry != "" {
		k := *kind
		for _, e := range eps {
			if e[0] == *entry && k == "" {
				k = e[1]
			}
		}
		if k == "" {
			fmt.Fprintln(os.Stderr, "cannot determine the context kind of", *entry, "(use -kind)")
			return 2
		}
		eps = [][2]string{{*entry, k}}
	}
	cfg := defaultConfig()
	cfg.SolverKind = *solver
	cfg.TimeoutMs = *timeout
	if *unwind > 0 {
		cfg.Unwind = *unwind
	}
	if *maxPaths > 0 {
		cfg.MaxPaths = *maxPaths
	}
	onMiss := "symbolic"
	if *maps == "empty" {
		onMiss = "null"
	}
	rc := 0
	for _, ep := range eps {
		verdicts := map[uint64]int{}
		events, merged := 0, 0
		mkEnv := func(in *Interp, pkt *LLObj) *LLEnv {
			env := &LLEnv{Packet: pkt, Maps: in.BPFMaps(*prog, onMiss), IfConversion: *ifconv}
			for _, m := range env.Maps {
				m.MaxSymbolic = *maxHits
			}
			for _, kv := range strings.Split(*mapOv, ",") {
				if i := strings.Index(kv, "="); i > 0 {
					m := env.Maps[kv[:i]]
					if m == nil {
						panic(unsupported("llir: -map: no map " + kv[:i]))
					}
					if kv[i+1:] == "empty" {
						m.OnMiss = "null"
					} else {
						m.OnMiss = "symbolic"
					}
				}
			}
			return env
		}
		er := explore(cfg, *workers, *prog+":"+ep[0], func(in *Interp) interface{} {
			pkt := in.NewSymbolicPacket("pkt", *L)
			if *minL > 0 {
				in.assume(in.tc.Cmp(OpULe, in.tc.Const(uint64(*minL), 64), pkt.Len))
			}
			env := mkEnv(in, pkt)
			run, _ := in.RunBPF(*prog, ep[0], ep[1], env)
			v := in.concretize(run.Verdict, "verdict")
			if *check {
				if msg := replayCheck(in, &cfg, *prog, ep, *L, run, v, mkEnv); msg != "" {
					in.reportC("selfcheck", msg, "bpf/"+*prog+".c:"+ep[0])
				}
			}
			return &bpfPathOut{verdict: v, events: len(env.Events), merged: run.Merged}
		}, func(out interface{}, res *PathResult, in *Interp) {
			if o, ok := out.(*bpfPathOut); ok && o != nil {
				verdicts[o.verdict]++
				events += o.events
				merged += o.merged
			}
		})
		printExplore(er, *verbose)
		var vs []string
		var keys []uint64
		for v := range verdicts {
			keys = append(keys, v)
		}
		sort.Slice(keys, func(i, j int) bool { return keys[i] < keys[j] })
		for _, v := range keys {
			vs = append(vs, fmt.Sprintf("%d(%s)x%d", int32(v), verdictName(ep[1], v), verdicts[v]))
		}
		fmt.Printf("   verdicts: %s   events emitted on all paths: %d   if-converted branches: %d\n", strings.Join(vs, " "), events, merged)
		if len(er.Violations) > 0 {
			rc = 1
		}
		if len(er.Unsupported) > 0 || len(er.EngineErrs) > 0 {
			rc = 2
		}
	}
	return rc
}

// replayCheck re-executes the finished path concretely on the inputs of its model (packet, map contents, clock,
// choices; taken from the witness in creation order) without if-conversion, and compares the results with the
// symbolic ones evaluated under the model. Returns "" when they agree.
func replayCheck(in *Interp, cfg *Config, prog string, ep [2]string, L int, run *BPFRun, verdict uint64, mkEnv func(*Interp, *LLObj) *LLEnv) (msg string) {
	in.ensureModel()
	// variables younger than the model are not constrained by the path condition: complete the model with zeros
	model := map[string]uint64{}
	for k, v := range in.path.model {
		model[k] = v
	}
	for _, r := range in.path.nd {
		if r.T != nil {
			if _, ok := model[r.T.Name]; !ok {
				model[r.T.Name] = 0
			}
		}
	}
	wit := in.witness(model)
	if len(wit) < L+1 || wit[0].Tag != "pkt.len" {
		return "replay: unexpected witness layout"
	}
	plen := int(wit[0].V)
	data := make([]byte, L)
	for i := 0; i < L; i++ {
		data[i] = byte(wit[1+i].V)
	}
	in2 := newBareInterp(nil, cfg, "replay")
	in2.path = &PathState{reached: map[string]bool{}}
	var run2 *BPFRun
	func() {
		defer func() {
			if rec := recover(); rec != nil {
				switch e := rec.(type) {
				case pathEnd:
					msg = "replay ended: " + e.Msg
				default:
					msg = fmt.Sprintf("replay engine error: %v", rec)
				}
			}
		}()
		pkt := in2.NewConcretePacket("pkt", data[:plen], L)
		for j := plen; j < L; j++ {
			pkt.Bytes[j] = in2.tc.Const(uint64(data[j]), 8)
		}
		env := mkEnv(in2, pkt)
		env.IfConversion = "off"
		env.Replay = &LLReplay{Vals: wit[L+1:]}
		run2, _ = in2.RunBPF(prog, ep[0], ep[1], env)
	}()
	if msg != "" {
		return msg
	}
	ev := func(t *Term) (uint64, bool) { return Eval(t, model, map[*Term]uint64{}) }
	if !run2.Verdict.IsConst() || run2.Verdict.V != verdict {
		return fmt.Sprintf("replay verdict %v differs from symbolic verdict %d", run2.Verdict.V, int32(verdict))
	}
	l1, _ := ev(run.Packet.Len)
	if !run2.Packet.Len.IsConst() || run2.Packet.Len.V != l1 {
		return fmt.Sprintf("replay packet length %d differs from symbolic %d", run2.Packet.Len.V, l1)
	}
	for i := 0; i < int(l1); i++ {
		b1, ok := ev(run.Packet.Bytes[i])
		b2 := run2.Packet.Bytes[i]
		if !ok || !b2.IsConst() || b1 != b2.V {
			return fmt.Sprintf("replay packet byte %d is %v (const=%v), symbolic run has %d (ok=%v) under the model", i, b2.V, b2.IsConst(), b1, ok)
		}
	}
	for _, mn := range sortedMapNames(run.Env.Maps) {
		m1, m2 := run.Env.Maps[mn], run2.Env.Maps[mn]
		if len(m1.Entries) != len(m2.Entries) {
			return fmt.Sprintf("replay: map %s has %d entries, symbolic run %d", mn, len(m2.Entries), len(m1.Entries))
		}
		for i, e1 := range m1.Entries {
			e2 := m2.Entries[i]
			if e1.Deleted != e2.Deleted {
				return fmt.Sprintf("replay: map %s entry %d liveness differs", mn, i)
			}
			if e1.Deleted {
				continue
			}
			for j := range e1.Val.Bytes {
				t1, t2 := e1.Val.Bytes[j], e2.Val.Bytes[j]
				if t1 == nil && t2 == nil {
					continue
				}
				if t1 == nil || t2 == nil || t1 == llPtrByte || t2 == llPtrByte {
					return fmt.Sprintf("replay: map %s entry %d byte %d: unmaterialised/pointer byte mismatch", mn, i, j)
				}
				b1, ok := ev(t1)
				if !ok || !t2.IsConst() || b1 != t2.V {
					return fmt.Sprintf("replay: map %s entry %d value byte %d is %v, symbolic run has %d under the model", mn, i, j, t2.V, b1)
				}
			}
		}
	}
	if len(run.Env.Events) != len(run2.Env.Events) {
		return "replay: number of emitted events differs"
	}
	for i, e1 := range run.Env.Events {
		e2 := run2.Env.Events[i]
		for j := range e1.Data {
			b1, ok := ev(e1.Data[j])
			if !ok || !e2.Data[j].IsConst() || b1 != e2.Data[j].V {
				return fmt.Sprintf("replay: event %d byte %d differs", i, j)
			}
		}
	}
	return ""
}

func verdictName(kind string, v uint64) string {
	if kind == "xdp" {
		if int(v) < 5 {
			return []string{"XDP_ABORTED", "XDP_DROP", "XDP_PASS", "XDP_TX", "XDP_REDIRECT"}[v]
		}
		return "?"
	}
	switch int32(v) {
	case -1:
		return "TC_ACT_UNSPEC"
	case 0:
		return "TC_ACT_OK"
	case 2:
		return "TC_ACT_SHOT"
	case 7:
		return "TC_ACT_REDIRECT"
	}
	return "?"
}

func printExplore(er *ExploreResult, verbose bool) {
	fmt.Printf("== %s: paths=%d ends=%v instrs=%d solver: sat=%d unsat=%d unknown=%d (%.1fs) inexact-paths=%d wall=%.1fs truncated=%v\n",
		er.Name, er.Paths, er.Ends, er.Instrs, er.Queries.Sat, er.Queries.Unsat, er.Queries.Unknown, er.Queries.Time.Seconds(), er.Inexact, er.Wall, er.Truncated)
	for k, n := range er.Unsupported {
		fmt.Printf("   UNSUPPORTED x%d: %s\n", n, k)
	}
	for k, n := range er.Bounds {
		fmt.Printf("   BOUND x%d: %s\n", n, k)
	}
	for k, n := range er.Unknowns {
		fmt.Printf("   SOLVER-UNKNOWN x%d: %s\n", n, k)
	}
	for _, e := range er.EngineErrs {
		fmt.Printf("   ENGINE: %s\n", e)
	}
	for _, v := range er.Violations {
		fmt.Printf("   VIOLATION kind=%s site=%s\n      %s\n", v.Kind, v.Site, v.Msg)
		plen, pkt, rest := witnessPacket(v, "pkt")
		fmt.Printf("      witness: packet length %d, bytes %s\n", plen, hex.EncodeToString(pkt))
		if verbose || len(rest) <= 24 {
			fmt.Printf("      other nd: %s\n", strings.Join(rest, " "))
		} else {
			fmt.Printf("      other nd: %s ... (%d values, -v shows all)\n", strings.Join(rest[:24], " "), len(rest))
		}
	}
}

// witnessPacket extracts the packet bytes of a violation witness (nd tags tag.len and tag[i]).
func witnessPacket(v *Violation, tag string) (int, []byte, []string) {
	plen := 0
	var bs []byte
	var rest []string
	for _, w := range v.ND {
		var i int
		switch {
		case w.Tag == tag+".len":
			plen = int(w.V)
		case strings.HasPrefix(w.Tag, tag+"["):
			if _, err := fmt.Sscanf(w.Tag[len(tag):], "[%d]", &i); err == nil {
				for len(bs) <= i {
					bs = append(bs, 0)
				}
				bs[i] = byte(w.V)
			}
		default:
			if w.V != 0 {
				rest = append(rest, fmt.Sprintf("%s=%d", w.Tag, w.V))
			}
		}
	}
	if plen < len(bs) {
		bs = bs[:plen]
	}
	return plen, bs, rest
}

// ---- bngsym bpf-selftest ----

type stEntry struct{ key, val []byte }

type stCase struct {
	entry   int
	pkt     []byte // capacity bytes
	plen    int
	now     uint64
	init    map[string][]stEntry
	verdict int32
	newLen  int
	outPkt  []byte
	maps    []string // "map keyhex valhex" (?? = uninitialised byte)
	events  []string
	uninit  []string
	problem string
}

func biasedBytes(rng *rand.Rand, n int) []byte {
	b := make([]byte, n)
	for i := range b {
		switch rng.Intn(6) {
		case 0, 1:
			b[i] = byte(rng.Intn(4))
		case 2:
			b[i] = 0
		case 3:
			b[i] = byte(rng.Intn(128))
		default:
			b[i] = byte(rng.Intn(256))
		}
	}
	return b
}

// randomPacket builds a loosely structured Ethernet/IPv4/IPv6/UDP/TCP/ICMP/DHCP packet so that the programs get past
// their first checks reasonably often.
func randomPacket(rng *rand.Rand, capacity int) ([]byte, int) {
	p := make([]byte, capacity)
	rng.Read(p)
	pick := func(vs ...int) int { return vs[rng.Intn(len(vs))] }
	pct := func(n int) bool { return rng.Intn(100) < n }
	put16 := func(o int, v int) {
		if o+1 < len(p) {
			p[o], p[o+1] = byte(v>>8), byte(v)
		}
	}
	off := 12
	et := 0x0800
	switch r := rng.Intn(100); {
	case r < 60:
	case r < 70:
		et = 0x86dd
	case r < 82:
		et = 0x8100
	case r < 88:
		et = 0x88a8
	case r < 92:
		et = 0x0806
	default:
		et = rng.Intn(65536)
	}
	put16(off, et)
	off += 2
	if et == 0x8100 || et == 0x88a8 {
		inner := pick(0x0800, 0x0800, 0x0800, 0x8100, 0x8100, 0x86dd)
		put16(off, rng.Intn(65536))
		put16(off+2, inner)
		off += 4
		if inner == 0x8100 {
			put16(off+2, pick(0x0800, 0x0800, 0x0800, 0x0806))
			off += 4
		}
	}
	if off < len(p) {
		ihl := 5
		if pct(25) {
			ihl = pick(6, 7, 15, 0, 3, 4)
		}
		p[off] = byte(0x40 | ihl)
	}
	proto := 17
	switch r := rng.Intn(100); {
	case r < 30:
		proto = 6
	case r < 70:
	case r < 85:
		proto = 1
	default:
		proto = pick(47, 50, rng.Intn(256))
	}
	if off+9 < len(p) {
		p[off+9] = byte(proto)
	}
	// private source addresses are interesting for nat44
	if off+15 < len(p) && pct(70) {
		copy(p[off+12:], [][]byte{{10, 1, 2, 3}, {192, 168, 1, 7}, {172, 16, 9, 9}, {100, 64, 0, 1}, {172, 32, 0, 1}, {100, 128, 0, 1}}[rng.Intn(6)])
	}
	l4 := off + int(p[min(off, len(p)-1)]&0xf)*4
	if l4+3 < len(p) && pct(70) {
		put16(l4, pick(68, 67, 5060, 1024, rng.Intn(65536)))
		put16(l4+2, pick(67, 67, 67, 21, 5060, rng.Intn(65536)))
	}
	if proto == 17 && l4+7 < len(p) && pct(30) {
		put16(l4+6, 0) // no UDP checksum
	}
	d := l4 + 8
	if d+240 < len(p) && pct(80) {
		if pct(85) {
			p[d] = 1
		}
		if pct(90) {
			copy(p[d+236:], []byte{0x63, 0x82, 0x53, 0x63})
		}
		o := d + 240
		switch rng.Intn(5) {
		case 0:
			copy(p[o:], []byte{53, 1, byte(pick(1, 3, 3, 5, 8))})
		case 1:
			copy(p[o:], []byte{0, 53, 1, byte(pick(1, 3))})
		case 2:
			copy(p[o:], []byte{53, 1, byte(pick(1, 3)), 82, 12, 1, byte(pick(4, 8, 10, 33, 0)), 'a', 'b', 'c', 'd'})
		case 3:
			copy(p[o:], []byte{61, 1, 7, 53, 1, byte(pick(1, 3))})
		}
		if pct(30) && o+30 < len(p) {
			po := o + 12 + rng.Intn(8)
			copy(p[po:], []byte{82, 10, 1, byte(pick(3, 6, 32, 40)), 'x', 'y', 'z'})
		}
		if pct(50) {
			put16(d+10, pick(0x8000, 0))
		}
		if pct(50) {
			copy(p[d+12:], []byte{0, 0, 0, 0})
		}
		if pct(50) {
			copy(p[d+24:], []byte{0, 0, 0, 0})
		}
		if pct(20) {
			copy(p[d+28:], []byte{0, 0, 0, 0, 0, 0})
		}
	}
	plen := capacity
	switch r := rng.Intn(100); {
	case r < 12:
		plen = rng.Intn(capacity + 1)
	case r < 30:
		plen = min(capacity, pick(13, 14, 33, 34, 35, 41, 42, 53, 54, 55, 61, 62, 281, 282, 283, 293, 294, 295, 345, 346, 347, 350))
	}
	return p, plen
}

func termBytes(ts []*Term) ([]byte, bool) {
	out := make([]byte, len(ts))
	for i, t := range ts {
		if t == nil || !t.IsConst() {
			return nil, false
		}
		out[i] = byte(t.V)
	}
	return out, true
}

// termHex renders concrete bytes as hex; bytes that are uninitialised memory (lazily created "uninit." symbols) are
// rendered as "??" (the native run has garbage there). ok=false: some other symbolic byte.
func termHex(ts []*Term) (string, int, bool) {
	var sb strings.Builder
	wild := 0
	for _, t := range ts {
		switch {
		case t != nil && t.IsConst():
			fmt.Fprintf(&sb, "%02x", t.V)
		case t != nil && t.Op == OpVar && strings.Contains(t.Name, "uninit"):
			sb.WriteString("??")
			wild++
		default:
			return "", 0, false
		}
	}
	return sb.String(), wild, true
}

// hexMatch compares an IR-side hex string (with ?? wildcards) against a native one.
func hexMatch(ir, nat string) bool {
	if len(ir) != len(nat) {
		return false
	}
	for i := 0; i < len(ir); i++ {
		if ir[i] != nat[i] && ir[i] != '?' {
			return false
		}
	}
	return true
}

func hexListMatch(ir, nat []string) bool {
	if len(ir) != len(nat) {
		return false
	}
	for i := range ir {
		if !hexMatch(ir[i], nat[i]) {
			return false
		}
	}
	return true
}

func fnv64(parts ...[]byte) uint64 {
	h := uint64(14695981039346656037)
	for _, p := range parts {
		for _, b := range p {
			h ^= uint64(b)
			h *= 1099511628211
		}
		h ^= 0xff
		h *= 1099511628211
	}
	return h
}

func cmdBPFSelftest(args []string) int {
	fs := flag.NewFlagSet("bpf-selftest", flag.ExitOnError)
	n := fs.Int("n", 200, "random concrete packets per entry point")
	seed := fs.Int64("seed", 1, "")
	progs := fs.String("progs", "antispoof,qos_ratelimit,dhcp_fastpath,nat44", "")
	capacity := fs.Int("cap", 400, "packet buffer capacity")
	keep := fs.Bool("keep", false, "keep the temporary build directory")
	fs.Parse(args)
	tmp, err := os.MkdirTemp("", "bngsym-selftest-")
	if err != nil {
		fmt.Fprintln(os.Stderr, err)
		return 2
	}
	if !*keep {
		defer os.RemoveAll(tmp)
	} else {
		fmt.Println("build directory:", tmp)
	}
	rc := 0
	for _, prog := range strings.Split(*progs, ",") {
		// second pass: if-conversion forced on every eligible branch (validates the merging logic on concrete data)
		for _, mode := range []string{"", "force"} {
			if r := selftestProg(prog, *n, *seed, *capacity, tmp, mode); r > rc {
				rc = r
			}
		}
	}
	if rc == 0 {
		fmt.Println("SELFTEST PASS")
	} else {
		fmt.Println("SELFTEST FAIL")
	}
	return rc
}

func selftestProg(prog string, n int, seed int64, capacity int, tmp string, ifconv string) int {
	t0 := time.Now()
	mod, err := loadBPFModule(prog)
	if err != nil {
		fmt.Println("selftest", prog, ":", err)
		return 2
	}
	eps := mod.bpfEntryPoints()
	// --- native build ---
	var src strings.Builder
	fmt.Fprintf(&src, "#include \"%s\"\n", filepath.Join(repoDir(), "bpf", prog+".c"))
	src.WriteString("#define VERIF_MAPS(X)")
	for _, mn := range mod.MapOrder {
		d := mod.Maps[mn]
		fmt.Fprintf(&src, " X(%s, %d, %d, %d, %d)", mn, d.Type, d.KeySize, d.ValSize, d.MaxEntries)
	}
	src.WriteString("\n#define VERIF_ENTRIES(X)")
	for _, e := range eps {
		isx := 0
		if e[1] == "xdp" {
			isx = 1
		}
		fmt.Fprintf(&src, " X(%s, %d)", e[0], isx)
	}
	src.WriteString("\n")
	// cross-check of the IR-derived sizes against the native compiler
	names := map[string][]string{}
	for _, f := range []string{prog + ".c", "maps.h"} {
		if b, err := os.ReadFile(filepath.Join(repoDir(), "bpf", f)); err == nil {
			for k, v := range mapFieldNames(string(b)) {
				names[k] = v
			}
		}
	}
	for _, mn := range mod.MapOrder {
		d := mod.Maps[mn]
		for _, fn := range names[mn] {
			switch fn {
			case "key":
				fmt.Fprintf(&src, "_Static_assert(sizeof(*%s.key) == %d, \"key size of %s\");\n", mn, d.KeySize, mn)
			case "value":
				fmt.Fprintf(&src, "_Static_assert(sizeof(*%s.value) == %d, \"value size of %s\");\n", mn, d.ValSize, mn)
			case "type":
				fmt.Fprintf(&src, "_Static_assert(sizeof(*%s.type)/sizeof(int) == %d, \"type of %s\");\n", mn, d.Type, mn)
			case "max_entries":
				fmt.Fprintf(&src, "_Static_assert(sizeof(*%s.max_entries)/sizeof(int) == %d, \"max_entries of %s\");\n", mn, d.MaxEntries, mn)
			}
		}
	}
	fmt.Fprintf(&src, "_Static_assert(sizeof(struct __sk_buff) == %d && __builtin_offsetof(struct __sk_buff, data) == %d && __builtin_offsetof(struct __sk_buff, data_end) == %d && __builtin_offsetof(struct __sk_buff, len) == %d, \"__sk_buff layout\");\n",
		skbSize, skbOffData, skbOffDataEnd, skbOffLen)
	fmt.Fprintf(&src, "_Static_assert(sizeof(struct xdp_md) == %d && __builtin_offsetof(struct xdp_md, data_end) == %d && __builtin_offsetof(struct xdp_md, data_meta) == %d, \"xdp_md layout\");\n",
		xdpSize, xdpOffDataEnd, xdpOffMeta)
	fmt.Fprintf(&src, "#include \"%s\"\n", filepath.Join(shimDir(), "native", "driver.c"))
	cfile := filepath.Join(tmp, prog+"_native.c")
	bin := filepath.Join(tmp, prog+"_native")
	os.WriteFile(cfile, []byte(src.String()), 0o644)
	cc := exec.Command("clang", "-O1", "-g", "-fsanitize=address,undefined", "-fno-sanitize=alignment", "-fno-omit-frame-pointer", "-Wno-everything",
		"-I"+filepath.Join(shimDir(), "native"), "-I"+filepath.Join(repoDir(), "bpf"), "-o", bin, cfile)
	if out, err := cc.CombinedOutput(); err != nil {
		fmt.Printf("selftest %s: native build failed: %v\n%s\n", prog, err, out)
		return 2
	}
	// --- IR runs on concrete inputs ---
	rng := rand.New(rand.NewSource(seed))
	cfg := defaultConfig()
	solver, err := NewSolver(cfg.SolverKind, cfg.TimeoutMs)
	if err != nil {
		fmt.Println("selftest: solver:", err)
		return 2
	}
	defer solver.Close()
	var cases []*stCase
	nMerged := 0
	cover := map[string]bool{}
	for ei, ep := range eps {
		for i := 0; i < n; i++ {
			c := &stCase{entry: ei, init: map[string][]stEntry{}}
			c.pkt, c.plen = randomPacket(rng, capacity)
			c.now = uint64(rng.Int63n(1 << 50))
			if rng.Intn(4) == 0 {
				c.now = uint64(rng.Int63n(4000)) * 1000000000
			}
			caseSeed := rng.Uint64()
			hitPcts := map[string]uint64{}
			for _, mn := range mod.MapOrder {
				hitPcts[mn] = []uint64{0, 50, 90, 100, 100}[rng.Intn(5)]
			}
			body := func(in *Interp) interface{} {
				tc := in.tc
				pkt := in.NewConcretePacket("pkt", c.pkt[:c.plen], capacity)
				for j := c.plen; j < capacity; j++ {
					pkt.Bytes[j] = tc.Const(uint64(c.pkt[j]), 8)
				}
				ms := in.BPFMaps(prog, "null")
				for _, mn := range mod.MapOrder {
					m := ms[mn]
					mname := mn
					toTerms := func(b []byte) []*Term {
						ts := make([]*Term, len(b))
						for i, x := range b {
							ts[i] = tc.Const(uint64(x), 8)
						}
						return ts
					}
					if m.arrayLike() {
						// element 0 exists with (biased) random contents
						r2 := rand.New(rand.NewSource(int64(fnv64([]byte(mname)) ^ caseSeed)))
						val := biasedBytes(r2, m.ValSize)
						key := []byte{0, 0, 0, 0}
						m.Entries = append(m.Entries, &LLMapEntry{Key: toTerms(key), Val: &LLObj{Name: mname + ".value#0", Bytes: toTerms(val)}})
						c.init[mname] = append(c.init[mname], stEntry{key, val})
						continue
					}
					if m.Type == bpfMapLpmTrie && m.KeySize == 8 && caseSeed%2 == 0 {
						// preloaded prefixes (some derived from the packet's IPv4 source address so that they match)
						r2 := rand.New(rand.NewSource(int64(fnv64([]byte(mname)) ^ caseSeed)))
						for k := 0; k < 3; k++ {
							key := make([]byte, 8)
							key[0] = byte(r2.Intn(33))
							if r2.Intn(3) != 0 && len(c.pkt) >= 30 {
								copy(key[4:], c.pkt[26:30])
							} else {
								r2.Read(key[4:])
							}
							if r2.Intn(2) == 0 { // garbage beyond the prefix must not matter
								key[7] ^= byte(r2.Intn(2))
							}
							dup := false
							for _, e := range c.init[mname] {
								if string(e.key) == string(key) {
									dup = true
								}
							}
							if dup {
								continue
							}
							val := biasedBytes(r2, m.ValSize)
							m.Entries = append(m.Entries, &LLMapEntry{Key: toTerms(key), Val: &LLObj{Name: fmt.Sprintf("%s.value#p%d", mname, k), Bytes: toTerms(val)}})
							c.init[mname] = append(c.init[mname], stEntry{key, val})
						}
						continue
					}
					if m.hashLike() || m.Type == bpfMapLpmTrie {
						m.OnMissFn = func(m *LLMap, key []*Term) []*Term {
							kb, ok := termBytes(key)
							if !ok {
								panic(unsupported("selftest: symbolic map key in a concrete run (uninitialised memory?)"))
							}
							h := fnv64([]byte(mname), kb) ^ caseSeed
							if (h>>8)%100 >= hitPcts[mname] {
								return nil
							}
							val := biasedBytes(rand.New(rand.NewSource(int64(h))), m.ValSize)
							c.init[mname] = append(c.init[mname], stEntry{kb, val})
							return toTerms(val)
						}
					}
				}
				env := &LLEnv{Packet: pkt, Maps: ms, Now: tc.Const(c.now, 64), Choose: func(string) bool { return true }, Cover: cover, IfConversion: ifconv}
				run, _ := in.RunBPF(prog, ep[0], ep[1], env)
				if !run.Verdict.IsConst() || !pkt.Len.IsConst() {
					c.problem = "symbolic verdict or length in a concrete run"
					return nil
				}
				nMerged += run.Merged
				c.verdict = int32(run.Verdict.V)
				c.newLen = int(pkt.Len.V)
				ob, ok := termBytes(pkt.Bytes[:c.newLen])
				if !ok {
					c.problem = "symbolic packet byte after a concrete run"
					return nil
				}
				c.outPkt = ob
				for _, mn := range mod.MapOrder {
					for _, e := range ms[mn].Entries {
						if e.Deleted {
							continue
						}
						kb, ok1 := termBytes(e.Key)
						vh, wild, ok2 := termHex(e.Val.Bytes)
						if !ok1 || !ok2 {
							c.problem = "symbolic map contents after a concrete run in " + mn
							return nil
						}
						if wild > 0 {
							c.uninit = append(c.uninit, fmt.Sprintf("value of map %s: %s", mn, vh))
						}
						c.maps = append(c.maps, mn+" "+hex.EncodeToString(kb)+" "+vh)
					}
				}
				for _, ev := range env.Events {
					eh, wild, ok := termHex(ev.Data)
					if !ok {
						c.problem = "symbolic event data in " + ev.Map
						return nil
					}
					if wild > 0 {
						c.uninit = append(c.uninit, fmt.Sprintf("record sent to %s: %s", ev.Map, eh))
					}
					c.events = append(c.events, ev.Map+" "+eh)
				}
				return c
			}
			res, _, _ := runBarePath(solver, &cfg, "selftest", nil, body)
			if res.End != EndNormal {
				c.problem = fmt.Sprintf("IR run ended %s: %s", endNames[res.End], res.Msg)
				if res.EngineErr != "" {
					c.problem += "\n" + res.EngineErr
				}
			} else if len(res.Forks) > 0 && c.problem == "" {
				c.problem = "IR run forked on concrete input"
			}
			cases = append(cases, c)
		}
	}
	irTime := time.Since(t0)
	// --- native runs ---
	var in bytes.Buffer
	for _, c := range cases {
		fmt.Fprintf(&in, "T %d %d %d %d\nP %s\n", c.entry, c.plen, capacity, c.now, hex.EncodeToString(c.pkt))
		for _, mn := range mod.MapOrder {
			for _, e := range c.init[mn] {
				fmt.Fprintf(&in, "M %s %s %s\n", mn, hex.EncodeToString(e.key), hex.EncodeToString(e.val))
			}
		}
		in.WriteString("R\n")
	}
	run := exec.Command(bin)
	run.Stdin = &in
	run.Env = append(os.Environ(), "ASAN_OPTIONS=detect_leaks=0:halt_on_error=1", "UBSAN_OPTIONS=print_stacktrace=1")
	var stdout, stderr bytes.Buffer
	run.Stdout, run.Stderr = &stdout, &stderr
	runErr := run.Run()
	type natRes struct {
		verdict, newLen int
		pkt             string
		maps            []string
		events          []string
	}
	var nat []*natRes
	var cur *natRes
	for _, ln := range strings.Split(stdout.String(), "\n") {
		f := strings.Fields(ln)
		if len(f) == 0 {
			continue
		}
		switch f[0] {
		case "V":
			cur = &natRes{}
			fmt.Sscanf(ln, "V %d %d", &cur.verdict, &cur.newLen)
		case "P":
			if len(f) > 1 {
				cur.pkt = f[1]
			}
		case "M":
			cur.maps = append(cur.maps, strings.Join(f[1:], " "))
		case "O":
			cur.events = append(cur.events, strings.Join(f[1:], " "))
		case "E":
			nat = append(nat, cur)
		}
	}
	fails, problems := 0, 0
	perEntry := map[int][3]int{}
	verdictSeen := map[string]map[int32]int{}
	for i, c := range cases {
		st := perEntry[c.entry]
		st[0]++
		report := func(format string, a ...interface{}) {
			if fails+problems < 12 {
				fmt.Printf("   MISMATCH %s:%s case %d (len %d): %s\n      packet %s\n", prog, eps[c.entry][0], i, c.plen, fmt.Sprintf(format, a...), hex.EncodeToString(c.pkt[:c.plen]))
			}
		}
		switch {
		case c.problem != "":
			problems++
			st[2]++
			report("%s", c.problem)
		case i >= len(nat):
			fails++
			st[1]++
			report("no native result (native driver stopped early)")
		default:
			nr := nat[i]
			irMaps := append([]string(nil), c.maps...)
			sort.Strings(irMaps)
			sort.Strings(nr.maps)
			switch {
			case int32(nr.verdict) != c.verdict:
				fails++
				st[1]++
				report("verdict IR=%d native=%d", c.verdict, nr.verdict)
			case nr.newLen != c.newLen:
				fails++
				st[1]++
				report("length after IR=%d native=%d", c.newLen, nr.newLen)
			case nr.pkt != hex.EncodeToString(c.outPkt):
				fails++
				st[1]++
				report("packet bytes differ\n      IR     %s\n      native %s", hex.EncodeToString(c.outPkt), nr.pkt)
			case !hexListMatch(irMaps, nr.maps):
				fails++
				st[1]++
				report("map contents differ\n      IR:\n        %s\n      native:\n        %s", strings.Join(irMaps, "\n        "), strings.Join(nr.maps, "\n        "))
			case !hexListMatch(c.events, nr.events):
				fails++
				st[1]++
				report("emitted events differ\n      IR     %v\n      native %v", c.events, nr.events)
			}
			if verdictSeen[eps[c.entry][0]] == nil {
				verdictSeen[eps[c.entry][0]] = map[int32]int{}
			}
			verdictSeen[eps[c.entry][0]][c.verdict]++
		}
		perEntry[c.entry] = st
	}
	uninitSeen := map[string]int{}
	for _, c := range cases {
		for _, u := range c.uninit {
			// normalise to the positions of the uninitialised bytes
			i := strings.LastIndex(u, " ")
			var pos []string
			for k := 0; k+1 < len(u[i+1:]); k += 2 {
				if u[i+1+k] == '?' {
					pos = append(pos, fmt.Sprint(k/2))
				}
			}
			uninitSeen[eps[c.entry][0]+": "+u[:i]+" bytes ["+strings.Join(pos, ",")+"]"]++
		}
	}
	for _, fn := range mod.FuncOrder {
		f := mod.Funcs[fn]
		hit := 0
		for _, b := range f.Blocks {
			if cover[fn+":"+b.Name] {
				hit++
			}
		}
		fmt.Printf("   coverage %s: %d/%d basic blocks executed by the random cases\n", fn, hit, len(f.Blocks))
	}
	for k, n := range uninitSeen {
		fmt.Printf("   NOTE x%d uninitialised stack/ring-buffer bytes (struct padding) leave the program in %s\n", n, k)
	}
	for ei, ep := range eps {
		st := perEntry[ei]
		fmt.Printf("selftest %s:%s (%s): %d cases, %d mismatches, %d IR-side problems, verdicts %v\n", prog, ep[0], ep[1], st[0], st[1], st[2], verdictSeen[ep[0]])
	}
	if runErr != nil || stderr.Len() > 0 {
		fmt.Printf("selftest %s: native driver: err=%v stderr:\n%s\n", prog, runErr, firstLines(stderr.String(), 40))
	}
	fmt.Printf("selftest %s (if-conversion %q): IR side %.1fs, total %.1fs, if-converted branches %d\n", prog, ifconv, irTime.Seconds(), time.Since(t0).Seconds(), nMerged)
	if fails > 0 || problems > 0 || runErr != nil {
		return 1
	}
	return 0
}

func firstLines(s string, n int) string {
	ls := strings.Split(s, "\n")
	if len(ls) > n {
		ls = append(ls[:n], "...")
	}
	return strings.Join(ls, "\n")
}

func init() {
	extraCommands["bpf"] = cmdBPF
	extraCommands["bpf-selftest"] = cmdBPFSelftest
}
