package main

// internal/bytealg (assembly in the real runtime): concrete or byte-wise symbolic implementations.

import (
	"fmt"
	"strings"
)

func (in *Interp) concreteStr(v Value, why string) string {
	s, ok := in.goString(v)
	if !ok {
		panic(unsupported(why + " on a symbolic string"))
	}
	return s
}

func (in *Interp) concreteByte(v Value, why string) byte {
	return byte(in.concretize(v.(*Term), why))
}

func init() {
	s := stubs
	s["internal/bytealg.IndexByteString"] = func(in *Interp, fr *frame, a []Value) Value {
		str := in.toSymStr(a[0])
		c := a[1].(*Term)
		// first index i with str[i]==c, else -1 (symbolic-safe ite chain)
		r := in.k64(-1)
		for i := len(str.B) - 1; i >= 0; i-- {
			r = in.tc.Ite(in.tc.Eq(str.B[i], c), in.k64(int64(i)), r)
		}
		return r
	}
	s["internal/bytealg.LastIndexByteString"] = func(in *Interp, fr *frame, a []Value) Value {
		str := in.toSymStr(a[0])
		c := a[1].(*Term)
		r := in.k64(-1)
		for i := 0; i < len(str.B); i++ {
			r = in.tc.Ite(in.tc.Eq(str.B[i], c), in.k64(int64(i)), r)
		}
		return r
	}
	s["internal/bytealg.IndexByte"] = func(in *Interp, fr *frame, a []Value) Value {
		bs := in.sliceBytes(a[0], "bytealg.IndexByte")
		c := a[1].(*Term)
		r := in.k64(-1)
		for i := len(bs) - 1; i >= 0; i-- {
			r = in.tc.Ite(in.tc.Eq(bs[i], c), in.k64(int64(i)), r)
		}
		return r
	}
	s["internal/bytealg.CountString"] = func(in *Interp, fr *frame, a []Value) Value {
		str := in.toSymStr(a[0])
		c := a[1].(*Term)
		r := in.k64(0)
		for _, b := range str.B {
			r = in.tc.Bin(OpAdd, r, in.tc.Ite(in.tc.Eq(b, c), in.k64(1), in.k64(0)))
		}
		return r
	}
	s["internal/bytealg.Count"] = func(in *Interp, fr *frame, a []Value) Value {
		bs := in.sliceBytes(a[0], "bytealg.Count")
		c := a[1].(*Term)
		r := in.k64(0)
		for _, b := range bs {
			r = in.tc.Bin(OpAdd, r, in.tc.Ite(in.tc.Eq(b, c), in.k64(1), in.k64(0)))
		}
		return r
	}
	s["internal/bytealg.IndexString"] = func(in *Interp, fr *frame, a []Value) Value {
		return in.k64(int64(strings.Index(in.concreteStr(a[0], "bytealg.IndexString"), in.concreteStr(a[1], "bytealg.IndexString"))))
	}
	s["strings.Index"] = s["internal/bytealg.IndexString"]
	s["strings.Contains"] = func(in *Interp, fr *frame, a []Value) Value {
		return in.tc.Bool(strings.Contains(in.concreteStr(a[0], "strings.Contains"), in.concreteStr(a[1], "strings.Contains")))
	}
	s["strings.HasPrefix"] = func(in *Interp, fr *frame, a []Value) Value {
		return in.tc.Bool(strings.HasPrefix(in.concreteStr(a[0], "strings.HasPrefix"), in.concreteStr(a[1], "strings.HasPrefix")))
	}
	s["strings.HasSuffix"] = func(in *Interp, fr *frame, a []Value) Value {
		return in.tc.Bool(strings.HasSuffix(in.concreteStr(a[0], "strings.HasSuffix"), in.concreteStr(a[1], "strings.HasSuffix")))
	}
	s["strings.ToLower"] = func(in *Interp, fr *frame, a []Value) Value {
		return strings.ToLower(in.concreteStr(a[0], "strings.ToLower"))
	}
	s["strings.ToUpper"] = func(in *Interp, fr *frame, a []Value) Value {
		return strings.ToUpper(in.concreteStr(a[0], "strings.ToUpper"))
	}
	s["strings.TrimSpace"] = func(in *Interp, fr *frame, a []Value) Value {
		return strings.TrimSpace(in.concreteStr(a[0], "strings.TrimSpace"))
	}
	s["internal/bytealg.Compare"] = func(in *Interp, fr *frame, a []Value) Value {
		x, y := in.sliceBytes(a[0], "bytealg.Compare"), in.sliceBytes(a[1], "bytealg.Compare")
		// lexicographic compare, symbolic-safe
		tc := in.tc
		n := len(x)
		if len(y) < n {
			n = len(y)
		}
		var r *Term
		switch {
		case len(x) < len(y):
			r = in.k64(-1)
		case len(x) > len(y):
			r = in.k64(1)
		default:
			r = in.k64(0)
		}
		for i := n - 1; i >= 0; i-- {
			r = tc.Ite(tc.Cmp(OpULt, x[i], y[i]), in.k64(-1), tc.Ite(tc.Cmp(OpULt, y[i], x[i]), in.k64(1), r))
		}
		return r
	}
	s["internal/bytealg.MakeNoZero"] = func(in *Interp, fr *frame, a []Value) Value {
		n := int(in.concretize(a[0].(*Term), "MakeNoZero"))
		arr := make([]Value, n)
		for i := range arr {
			arr[i] = in.tc.Const(0, 8)
		}
		return in.mkSliceConst(arr)
	}
	s["internal/stringslite.Index"] = s["internal/bytealg.IndexString"]
}

func sortStrings(ss []string) {
	for i := 1; i < len(ss); i++ {
		for j := i; j > 0 && ss[j] < ss[j-1]; j-- {
			ss[j], ss[j-1] = ss[j-1], ss[j]
		}
	}
}

// String() of addresses: executed from the real code when the bytes are concrete; with symbolic bytes the text is
// only ever used for logging/error messages in the code under test, so an opaque placeholder is returned (counted in
// lossyStrings, which also disables native trace sampling for that path).
func init() {
	symStr := func(name, real string) {
		stubs[real] = func(in *Interp, fr *frame, a []Value) Value {
			sl, ok := a[0].(SliceV)
			concrete := ok
			if ok && sl.Arr != nil {
				if !sl.N.IsConst() || !sl.Off.IsConst() {
					concrete = false
				} else {
					for i := 0; i < int(sl.N.V); i++ {
						if t, isT := sl.Arr[int(sl.Off.V)+i].(*Term); !isT || !t.IsConst() {
							concrete = false
							break
						}
					}
				}
			}
			if concrete {
				return in.execSSA(fr.caller, fr.fn, a, nil)
			}
			in.lossyStrings++
			return fmt.Sprintf("<%s#%d>", name, in.lossyStrings)
		}
	}
	symStr("ip", "(net.IP).String")
	symStr("mac", "(net.HardwareAddr).String")
}
