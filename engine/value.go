package main

// Value representation of the symbolic Go interpreter.
//
//   *Term            bool, all integer kinds, uintptr (bit-vector of the Go width)
//   FloatV           float32/64: concrete value or opaque
//   string           concrete string
//   *SymStr          string with symbolic bytes, concrete length
//   Struct, Array    value aggregates ([]Value; copied on load/store)
//   *Value           pointer to a cell (nil pointer = (*Value)(nil))
//   ElemPtr          pointer to an element of a scalar array at a symbolic index
//   SliceV           slice header with symbolic off/len/cap over a concrete backing array
//   *MapV            association list
//   Iface            interface value (dynamic type + value)
//   *Closure, *ssa.Function, *ssa.Builtin   function values
//   *ChanV           bounded FIFO
//   Tuple            multiple results

import (
	"fmt"
	"go/types"
	"strings"

	"golang.org/x/tools/go/ssa"
)

type Value interface{}

type Struct []Value
type Array []Value
type Tuple []Value

type FloatV struct {
	F   float64
	Sym bool // opaque (unknown) value
}

type SymStr struct {
	B []*Term // 8-bit terms
}

type ElemPtr struct {
	Arr []Value
	Idx *Term // 64-bit index into Arr
}

type SliceV struct {
	Arr       []Value // backing array from index 0; nil for the nil slice
	Off, N, C *Term   // 64-bit
}

type mapEntry struct {
	K, V Value
}

type MapV struct {
	E   []mapEntry
	Typ *types.Map
}

type Iface struct {
	T types.Type // nil for nil interface
	V Value
}

type Closure struct {
	Fn  *ssa.Function
	Env []Value
}

type ChanV struct {
	Buf    []Value
	Cap    int
	Closed bool
	Elem   types.Type
}

// opaque marker for values the engine refuses to model (e.g. *zap.Logger internals)
type Opaque struct{ What string }

func isNilPtr(v Value) bool {
	p, ok := v.(*Value)
	return ok && p == nil
}

func (in *Interp) zero(t types.Type) Value {
	switch t := t.(type) {
	case *types.Basic:
		if t.Kind() == types.UntypedNil {
			panic("untyped nil has no zero value")
		}
		if t.Info()&types.IsString != 0 {
			return ""
		}
		if t.Info()&types.IsFloat != 0 {
			return FloatV{}
		}
		if t.Info()&types.IsBoolean != 0 {
			return tFalse
		}
		if t.Kind() == types.UnsafePointer {
			return (*Value)(nil)
		}
		if t.Info()&types.IsComplex != 0 {
			return Opaque{"complex"}
		}
		return in.tc.Const(0, in.widthOf(t))
	case *types.Pointer:
		return (*Value)(nil)
	case *types.Array:
		a := make(Array, t.Len())
		for i := range a {
			a[i] = in.zero(t.Elem())
		}
		return a
	case *types.Named:
		return in.zero(t.Underlying())
	case *types.Alias:
		return in.zero(types.Unalias(t))
	case *types.Interface:
		return Iface{}
	case *types.Slice:
		return SliceV{Off: in.k64(0), N: in.k64(0), C: in.k64(0)}
	case *types.Struct:
		s := make(Struct, t.NumFields())
		for i := range s {
			s[i] = in.zero(t.Field(i).Type())
		}
		return s
	case *types.Tuple:
		if t.Len() == 1 {
			return in.zero(t.At(0).Type())
		}
		s := make(Tuple, t.Len())
		for i := range s {
			s[i] = in.zero(t.At(i).Type())
		}
		return s
	case *types.Chan:
		return (*ChanV)(nil)
	case *types.Map:
		return (*MapV)(nil)
	case *types.Signature:
		return (*ssa.Function)(nil)
	case *types.TypeParam:
		panic(unsupported("zero of type parameter"))
	}
	panic(unsupported(fmt.Sprintf("zero(%T)", t)))
}

func (in *Interp) k64(v int64) *Term { return in.tc.Const(uint64(v), 64) }

func (in *Interp) widthOf(t types.Type) int {
	b, ok := t.Underlying().(*types.Basic)
	if !ok {
		panic(unsupported("widthOf " + t.String()))
	}
	switch b.Kind() {
	case types.Bool, types.UntypedBool:
		return 0
	case types.Int8, types.Uint8:
		return 8
	case types.Int16, types.Uint16:
		return 16
	case types.Int32, types.Uint32, types.UntypedRune:
		return 32
	case types.Int, types.Uint, types.Int64, types.Uint64, types.Uintptr, types.UntypedInt:
		return 64
	}
	panic(unsupported("widthOf " + t.String()))
}

func isSigned(t types.Type) bool {
	b, ok := t.Underlying().(*types.Basic)
	return ok && b.Info()&types.IsInteger != 0 && b.Info()&types.IsUnsigned == 0
}

func isScalarType(t types.Type) bool {
	b, ok := t.Underlying().(*types.Basic)
	return ok && b.Info()&(types.IsInteger|types.IsBoolean) != 0
}

// copyVal returns a copy of aggregates (arrays and structs have value semantics).
func copyVal(v Value) Value {
	switch v := v.(type) {
	case Struct:
		n := make(Struct, len(v))
		for i, e := range v {
			n[i] = copyVal(e)
		}
		return n
	case Array:
		n := make(Array, len(v))
		for i, e := range v {
			n[i] = copyVal(e)
		}
		return n
	case Tuple:
		panic("copy of tuple")
	}
	return v
}

// equals returns the term for x == y (same static type assumed).
func (in *Interp) equals(x, y Value) *Term {
	tc := in.tc
	switch x := x.(type) {
	case *Term:
		yt, ok := y.(*Term)
		if !ok {
			return tFalse
		}
		if x.W != yt.W {
			return tFalse
		}
		return tc.Eq(x, yt)
	case FloatV:
		y := y.(FloatV)
		if x.Sym || y.Sym {
			return in.freshBool("fcmp")
		}
		return tc.Bool(x.F == y.F)
	case string:
		switch y := y.(type) {
		case string:
			return tc.Bool(x == y)
		case *SymStr:
			return in.symStrEq(y, x)
		}
		return tFalse
	case *SymStr:
		switch y := y.(type) {
		case string:
			return in.symStrEq(x, y)
		case *SymStr:
			if len(x.B) != len(y.B) {
				return tFalse
			}
			r := tTrue
			for i := range x.B {
				r = tc.And(r, tc.Eq(x.B[i], y.B[i]))
			}
			return r
		}
		return tFalse
	case Struct:
		y := y.(Struct)
		r := tTrue
		for i := range x {
			r = tc.And(r, in.equals(x[i], y[i]))
			if r.IsFalse() {
				return r
			}
		}
		return r
	case Array:
		y := y.(Array)
		r := tTrue
		for i := range x {
			r = tc.And(r, in.equals(x[i], y[i]))
			if r.IsFalse() {
				return r
			}
		}
		return r
	case *Value:
		yp, ok := y.(*Value)
		return tc.Bool(ok && x == yp)
	case ElemPtr:
		panic(unsupported("comparison of symbolic element pointers"))
	case Iface:
		y, ok := y.(Iface)
		if !ok {
			return tFalse
		}
		if x.T == nil || y.T == nil {
			return tc.Bool(x.T == nil && y.T == nil)
		}
		if !types.Identical(x.T, y.T) {
			return tFalse
		}
		return in.equals(x.V, y.V)
	case *MapV:
		y, ok := y.(*MapV)
		return tc.Bool(ok && x == y)
	case *ChanV:
		y, ok := y.(*ChanV)
		return tc.Bool(ok && x == y)
	case *Closure:
		y, ok := y.(*Closure)
		return tc.Bool(ok && x == y)
	case *ssa.Function:
		y, ok := y.(*ssa.Function)
		return tc.Bool(ok && x == y)
	case SliceV:
		// only comparison with nil is legal; handled in binop
		panic(unsupported("slice comparison"))
	case *opaqueErr:
		y, ok := y.(*opaqueErr)
		return tc.Bool(ok && x == y)
	case Opaque:
		return in.freshBool("opaqcmp")
	case nil:
		return tc.Bool(y == nil)
	}
	panic(unsupported(fmt.Sprintf("equals(%T)", x)))
}

func (in *Interp) symStrEq(s *SymStr, c string) *Term {
	if len(s.B) != len(c) {
		return tFalse
	}
	r := tTrue
	for i := range s.B {
		r = in.tc.And(r, in.tc.Eq(s.B[i], in.tc.Const(uint64(c[i]), 8)))
	}
	return r
}

// opaqueErr stands for a library error value whose package init was not executed.
type opaqueErr struct{ Name string }

func showValue(v Value) string {
	switch v := v.(type) {
	case *Term:
		if v.IsConst() {
			if v.W == 0 {
				return fmt.Sprint(v.V == 1)
			}
			return fmt.Sprint(v.V)
		}
		return fmt.Sprintf("<sym%d>", v.W)
	case string:
		return fmt.Sprintf("%q", v)
	case Iface:
		if v.T == nil {
			return "nil"
		}
		return fmt.Sprintf("%s(%s)", v.T, showValue(v.V))
	case Struct:
		var sb strings.Builder
		sb.WriteString("{")
		for i, e := range v {
			if i > 0 {
				sb.WriteString(" ")
			}
			if i > 6 {
				sb.WriteString("...")
				break
			}
			sb.WriteString(showValue(e))
		}
		sb.WriteString("}")
		return sb.String()
	case *Value:
		if v == nil {
			return "nil"
		}
		return "&" + showValue(*v)
	case *opaqueErr:
		return "err:" + v.Name
	}
	return fmt.Sprintf("%T", v)
}
