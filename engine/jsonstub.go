package main

// encoding/json and net/http modelled as identity transport of Go values (the JSON text itself is reflection code
// and is outside the claim): Marshal returns an opaque token, Unmarshal/Decode of that token yields a deep copy.

import (
	"fmt"
	"go/types"
)

func (in *Interp) deepCopy(v Value, memo map[*Value]*Value) Value {
	switch x := v.(type) {
	case Struct:
		n := make(Struct, len(x))
		for i, e := range x {
			n[i] = in.deepCopy(e, memo)
		}
		return n
	case Array:
		n := make(Array, len(x))
		for i, e := range x {
			n[i] = in.deepCopy(e, memo)
		}
		return n
	case SliceV:
		if x.Arr == nil {
			return x
		}
		n := int(in.concretize(x.N, "json copy length"))
		off := int(in.concretize(x.Off, "json copy offset"))
		arr := make([]Value, n)
		for i := 0; i < n; i++ {
			arr[i] = in.deepCopy(x.Arr[off+i], memo)
		}
		return in.mkSliceConst(arr)
	case *Value:
		if x == nil {
			return x
		}
		if p, ok := memo[x]; ok {
			return p
		}
		var cell Value
		p := &cell
		memo[x] = p
		cell = in.deepCopy(*x, memo)
		return p
	case *MapV:
		if x == nil {
			return x
		}
		m := &MapV{Typ: x.Typ}
		for _, e := range x.E {
			m.E = append(m.E, mapEntry{K: in.deepCopy(e.K, memo), V: in.deepCopy(e.V, memo)})
		}
		return m
	case Iface:
		return Iface{T: x.T, V: in.deepCopy(x.V, memo)}
	}
	return v
}

func (in *Interp) jsonPut(v Value) Value {
	if in.env.jsonVals == nil {
		in.env.jsonVals = map[string]Value{}
	}
	tok := fmt.Sprintf("json#%d", len(in.env.jsonVals))
	itf, _ := v.(Iface)
	val := itf.V
	if p, ok := val.(*Value); ok && p != nil {
		val = *p
	}
	in.env.jsonVals[tok] = in.deepCopy(val, map[*Value]*Value{})
	arr := make([]Value, len(tok))
	for i := range arr {
		arr[i] = in.tc.Const(uint64(tok[i]), 8)
	}
	return in.mkSliceConst(arr)
}

func (in *Interp) jsonGet(data Value, dst Value) Value {
	bs := in.sliceBytes(data, "json.Unmarshal")
	raw := make([]byte, len(bs))
	for i, b := range bs {
		if !b.IsConst() {
			return in.mkError("json: symbolic input (not a token of the identity transport)")
		}
		raw[i] = byte(b.V)
	}
	val, ok := in.env.jsonVals[string(raw)]
	if !ok {
		return in.mkError("json: invalid input")
	}
	itf, _ := dst.(Iface)
	p, _ := itf.V.(*Value)
	if p == nil {
		return in.mkError("json: Unmarshal(nil)")
	}
	*p = in.deepCopy(val, map[*Value]*Value{})
	return Iface{}
}

type jsonDecoder struct{ src Value }
type httpBody struct{ data Value }

func structFieldIndex(t types.Type, name string) int {
	st := t.Underlying().(*types.Struct)
	for i := 0; i < st.NumFields(); i++ {
		if st.Field(i).Name() == name {
			return i
		}
	}
	panic(unsupported("field " + name + " not found"))
}

func init() {
	s := stubs
	s["encoding/json.Marshal"] = func(in *Interp, fr *frame, a []Value) Value {
		return Tuple{in.jsonPut(a[0]), Iface{}}
	}
	s["encoding/json.Unmarshal"] = func(in *Interp, fr *frame, a []Value) Value {
		return in.jsonGet(a[0], a[1])
	}
	s["encoding/json.NewDecoder"] = func(in *Interp, fr *frame, a []Value) Value {
		var cell Value = &jsonDecoder{src: a[0]}
		return &cell
	}
	s["(*encoding/json.Decoder).Decode"] = func(in *Interp, fr *frame, a []Value) Value {
		p := a[0].(*Value)
		d := (*p).(*jsonDecoder)
		if itf, ok := d.src.(Iface); ok {
			if hb, ok := itf.V.(*httpBody); ok {
				return in.jsonGet(hb.data, a[1])
			}
		}
		return in.mkError("json: decoder over an unmodelled reader")
	}
	harnessAPI["vJSON"] = func(in *Interp, fr *frame, a []Value) Value { return in.jsonPut(a[0]) }
	harnessAPI["vHTTPNext"] = func(in *Interp, fr *frame, a []Value) Value {
		in.env.httpNext = append(in.env.httpNext, a[0])
		return nil
	}
	s["net/http.NewRequestWithContext"] = func(in *Interp, fr *frame, a []Value) Value {
		rt := fr.fn.Signature.Results().At(0).Type().(*types.Pointer).Elem()
		var cell Value = in.zero(rt)
		if u, ok := in.goString(a[2]); ok {
			in.env.httpURLs = append(in.env.httpURLs, u)
		}
		hi := structFieldIndex(rt, "Header")
		ht := rt.Underlying().(*types.Struct).Field(hi).Type()
		cell.(Struct)[hi] = &MapV{Typ: ht.Underlying().(*types.Map)}
		return Tuple{&cell, Iface{}}
	}
	harnessAPI["vHTTPLastURL"] = func(in *Interp, fr *frame, a []Value) Value {
		if n := len(in.env.httpURLs); n > 0 {
			return in.env.httpURLs[n-1]
		}
		return ""
	}
	s["(net/http.Header).Set"] = func(in *Interp, fr *frame, a []Value) Value { return nil }
	s["(net/http.Header).Add"] = s["(net/http.Header).Set"]
	s["net/http.NewRequest"] = s["net/http.NewRequestWithContext"]
	s["(*net/http.Client).Do"] = func(in *Interp, fr *frame, a []Value) Value {
		if len(in.env.httpNext) == 0 {
			return Tuple{(*Value)(nil), in.mkError("http: connection refused")}
		}
		body := in.env.httpNext[0]
		in.env.httpNext = in.env.httpNext[1:]
		rt := fr.fn.Signature.Results().At(0).Type().(*types.Pointer).Elem()
		var cell Value = in.zero(rt)
		st := cell.(Struct)
		st[structFieldIndex(rt, "StatusCode")] = in.k64(200)
		st[structFieldIndex(rt, "Body")] = Iface{T: &opaqueType{"httpbody"}, V: &httpBody{data: body}}
		return Tuple{&cell, Iface{}}
	}
}
