//go:build llir

package main

// IR generation for the eBPF programs of the repository under test. The IR is regenerated from the repository's
// current sources in every process (cached in memory only).

import (
	"bytes"
	"fmt"
	"os"
	"os/exec"
	"path/filepath"
	"strings"
	"sync"
)

func shimDir() string { return filepath.Join(harnessDir(), "shim") }

// buildBPFIR lowers <repo>/bpf/<prog>.c to LLVM IR text with clang -target bpf -O1.
func buildBPFIR(prog string) (irText string, err error) {
	if strings.ContainsAny(prog, "/\\ ") || prog == "" {
		return "", fmt.Errorf("llir: bad program name %q", prog)
	}
	src := filepath.Join(repoDir(), "bpf", prog+".c")
	if base, ok := strings.CutSuffix(prog, ".probe"); ok {
		// <prog>.probe = the program's current source plus small wrapper functions from /verif/harness/c/<prog>_probe.c
		// that expose its static inline helpers (key derivations, checksums) as callable functions
		wrap, err := os.ReadFile(filepath.Join(harnessDir(), "harness", "c", base+"_probe.c"))
		if err != nil {
			return "", fmt.Errorf("llir: %v", err)
		}
		tmp, err := os.CreateTemp("", "bngsym-probe-*.c")
		if err != nil {
			return "", err
		}
		defer os.Remove(tmp.Name())
		fmt.Fprintf(tmp, "#include \"%s\"\n%s\n", filepath.Join(repoDir(), "bpf", base+".c"), wrap)
		tmp.Close()
		src = tmp.Name()
	}
	if _, err := os.Stat(src); err != nil {
		return "", fmt.Errorf("llir: %v", err)
	}
	clang := "clang"
	if _, err := exec.LookPath("clang-14"); err == nil {
		clang = "clang-14"
	}
	cmd := exec.Command(clang, "-target", "bpf", "-O1", "-g0", "-S", "-emit-llvm", "-fno-discard-value-names",
		"-I"+shimDir(), "-I"+filepath.Join(repoDir(), "bpf"), "-I/usr/include/x86_64-linux-gnu", "-o", "-", src)
	var out, errb bytes.Buffer
	cmd.Stdout, cmd.Stderr = &out, &errb
	if err := cmd.Run(); err != nil {
		return "", fmt.Errorf("llir: clang failed for %s: %v\n%s", src, err, errb.String())
	}
	return out.String(), nil
}

type bpfModuleCache struct {
	once sync.Once
	mod  *LLModule
	err  error
}

var (
	bpfModMu sync.Mutex
	bpfMods  = map[string]*bpfModuleCache{}
)

// loadBPFModule builds and parses the IR of one program once per process.
func loadBPFModule(prog string) (*LLModule, error) {
	bpfModMu.Lock()
	c := bpfMods[prog]
	if c == nil {
		c = &bpfModuleCache{}
		bpfMods[prog] = c
	}
	bpfModMu.Unlock()
	c.once.Do(func() {
		text, err := buildBPFIR(prog)
		if err != nil {
			c.err = err
			return
		}
		if p := os.Getenv("VERIF_LLIR_DUMP"); p != "" {
			os.WriteFile(filepath.Join(p, prog+".ll"), []byte(text), 0o644)
		}
		mod, err := parseLLModule(prog, text)
		if err != nil {
			c.err = err
			return
		}
		// field names of the map definitions come from the C sources (program file and local headers)
		names := map[string][]string{}
		ents, _ := os.ReadDir(filepath.Join(repoDir(), "bpf"))
		for _, e := range ents {
			if e.Name() == strings.TrimSuffix(prog, ".probe")+".c" || strings.HasSuffix(e.Name(), ".h") {
				if b, err := os.ReadFile(filepath.Join(repoDir(), "bpf", e.Name())); err == nil {
					for k, v := range mapFieldNames(string(b)) {
						if _, dup := names[k]; !dup || e.Name() == strings.TrimSuffix(prog, ".probe")+".c" {
							names[k] = v
						}
					}
				}
			}
		}
		if err := mod.extractMaps(names); err != nil {
			c.err = err
			return
		}
		mod.precomputeLayouts()
		c.mod = mod
	})
	return c.mod, c.err
}

// bpfEntryPoints lists the functions placed in a program section (SEC("tc/..."), SEC("xdp")) with their kind.
func (mod *LLModule) bpfEntryPoints() [][2]string {
	var out [][2]string
	for _, fn := range mod.FuncOrder {
		f := mod.Funcs[fn]
		switch {
		case strings.HasPrefix(f.Section, "xdp"):
			out = append(out, [2]string{fn, "xdp"})
		case strings.HasPrefix(f.Section, "tc") || strings.HasPrefix(f.Section, "classifier"):
			out = append(out, [2]string{fn, "tc"})
		}
	}
	return out
}
