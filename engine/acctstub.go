package main

// Environment for the accounting property (C08): an in-memory file system behind the os calls accounting.go makes,
// the RADIUS server behind layeh.com/radius.Exchange (per request: accepts or is unreachable), and crash injection:
// inside vCrashable(f) the process may die immediately before any file-system mutation or RADIUS exchange.

import (
	"go/types"
	"path/filepath"
	"sort"
	"strings"
)

type crashSignal struct{ at string }

type radRec struct {
	pkt Value // *Value of the packet struct (deep copy)
	typ types.Type
}

type fileObj struct {
	name   string
	closed bool
}

type acctEnv struct {
	handles    map[*Value]*fileObj
	files      map[string]Value
	dirs       map[string]bool
	radLog     []radRec
	radMode    int // 0: per-request choice, 1: always up, 2: always down
	crashArmed bool
	crashes    int
	fsOps      int
}

func (in *Interp) acct() *acctEnv {
	if in.env.acct == nil {
		in.env.acct = &acctEnv{files: map[string]Value{}, dirs: map[string]bool{}}
	}
	return in.env.acct
}

func (in *Interp) crashPoint(what string) {
	a := in.acct()
	if !a.crashArmed {
		return
	}
	if in.pick("crash-before:"+what, 2) == 1 {
		a.crashArmed = false
		a.crashes++
		panic(crashSignal{what})
	}
}

func (in *Interp) strArg(v Value, what string) string {
	s, ok := in.goString(v)
	if !ok {
		panic(unsupported(what + ": symbolic path"))
	}
	return s
}

func baseName(p string) string {
	if i := strings.LastIndexByte(p, '/'); i >= 0 {
		return p[i+1:]
	}
	return p
}

func init() {
	s, h := stubs, harnessAPI
	notExist := func(in *Interp) Value { return in.mkError("file does not exist") }
	s["os.MkdirAll"] = func(in *Interp, fr *frame, a []Value) Value {
		d := strings.TrimSuffix(in.strArg(a[0], "MkdirAll"), "/")
		for d != "" && d != "." && d != "/" {
			in.acct().dirs[d] = true
			i := strings.LastIndexByte(d, '/')
			if i < 0 {
				break
			}
			d = d[:i]
		}
		return Iface{}
	}
	s["os.WriteFile"] = func(in *Interp, fr *frame, a []Value) Value {
		name := in.strArg(a[0], "WriteFile")
		in.crashPoint("write " + baseName(name))
		d := a[1].(SliceV)
		n := int(in.concretize(d.N, "WriteFile length"))
		arr := make([]Value, n)
		for i := 0; i < n; i++ {
			arr[i] = in.sel(d.Arr, in.tc.Bin(OpAdd, d.Off, in.k64(int64(i))))
		}
		in.acct().files[name] = in.mkSliceConst(arr)
		in.acct().fsOps++
		return Iface{}
	}
	s["os.ReadFile"] = func(in *Interp, fr *frame, a []Value) Value {
		name := in.strArg(a[0], "ReadFile")
		if d, ok := in.acct().files[name]; ok {
			return Tuple{in.deepCopy(d, map[*Value]*Value{}), Iface{}}
		}
		return Tuple{SliceV{}, notExist(in)}
	}
	s["os.Remove"] = func(in *Interp, fr *frame, a []Value) Value {
		name := in.strArg(a[0], "Remove")
		if _, ok := in.acct().files[name]; !ok {
			dname := strings.TrimSuffix(name, "/")
			if !in.acct().dirs[dname] {
				return notExist(in)
			}
			// a directory: removable only when empty
			for f := range in.acct().files {
				if strings.HasPrefix(f, dname+"/") {
					return in.mkError("directory not empty")
				}
			}
			for d := range in.acct().dirs {
				if strings.HasPrefix(d, dname+"/") {
					return in.mkError("directory not empty")
				}
			}
			in.crashPoint("rmdir " + baseName(dname))
			delete(in.acct().dirs, dname)
			in.acct().fsOps++
			return Iface{}
		}
		in.crashPoint("remove " + baseName(name))
		delete(in.acct().files, name)
		in.acct().fsOps++
		return Iface{}
	}
	// open files: a handle follows its file through a rename; writing to a closed handle fails
	s["os.OpenFile"] = func(in *Interp, fr *frame, a []Value) Value {
		name := in.strArg(a[0], "OpenFile")
		ae := in.acct()
		if _, ok := ae.files[name]; !ok {
			ae.files[name] = in.mkSliceConst(nil)
		}
		T := fr.fn.Signature.Results().At(0).Type().(*types.Pointer).Elem()
		var cell Value = in.zero(T)
		p := &cell
		if ae.handles == nil {
			ae.handles = map[*Value]*fileObj{}
		}
		ae.handles[p] = &fileObj{name: name}
		return Tuple{p, Iface{}}
	}
	s["(*os.File).Write"] = func(in *Interp, fr *frame, a []Value) Value {
		ae := in.acct()
		p, _ := a[0].(*Value)
		h := ae.handles[p]
		if h == nil {
			panic(unsupported("write to an os.File the engine did not open (stdout?)"))
		}
		d := a[1].(SliceV)
		n := int(in.concretize(d.N, "File.Write length"))
		if h.closed {
			return Tuple{in.k64(0), in.mkError("file already closed")}
		}
		in.crashPoint("append " + baseName(h.name))
		old := ae.files[h.name].(SliceV)
		on := int(in.concretize(old.N, "file length"))
		arr := make([]Value, 0, on+n)
		for i := 0; i < on; i++ {
			arr = append(arr, old.Arr[i])
		}
		for i := 0; i < n; i++ {
			arr = append(arr, in.sel(d.Arr, in.tc.Bin(OpAdd, d.Off, in.k64(int64(i)))))
		}
		ae.files[h.name] = in.mkSliceConst(arr)
		return Tuple{in.k64(int64(n)), Iface{}}
	}
	s["(*os.File).Close"] = func(in *Interp, fr *frame, a []Value) Value {
		p, _ := a[0].(*Value)
		if h := in.acct().handles[p]; h != nil {
			if h.closed {
				return in.mkError("file already closed")
			}
			h.closed = true
		}
		return Iface{}
	}
	s["(*os.File).Sync"] = func(in *Interp, fr *frame, a []Value) Value { return Iface{} }
	s["os.Rename"] = func(in *Interp, fr *frame, a []Value) Value {
		from, to := in.strArg(a[0], "Rename"), in.strArg(a[1], "Rename")
		ae := in.acct()
		d, ok := ae.files[from]
		if !ok {
			return notExist(in)
		}
		in.crashPoint("rename " + baseName(from))
		delete(ae.files, from)
		ae.files[to] = d
		for _, h := range ae.handles {
			if h.name == from {
				h.name = to
			} else if h.name == to {
				h.name = "<unlinked>"
			}
		}
		return Iface{}
	}
	h["vFSRead"] = func(in *Interp, fr *frame, a []Value) Value {
		if d, ok := in.acct().files[in.strArg(a[0], "vFSRead")]; ok {
			return d
		}
		return SliceV{}
	}
	s["os.IsNotExist"] = func(in *Interp, fr *frame, a []Value) Value {
		if itf, ok := a[0].(Iface); ok {
			if oe, ok := itf.V.(*opaqueErr); ok {
				return in.tc.Bool(oe.Name == "file does not exist")
			}
		}
		return tFalse
	}
	s["os.ReadDir"] = func(in *Interp, fr *frame, a []Value) Value {
		dir := strings.TrimSuffix(in.strArg(a[0], "ReadDir"), "/")
		var names []string
		for p := range in.acct().files {
			if strings.HasPrefix(p, dir+"/") && !strings.Contains(p[len(dir)+1:], "/") {
				names = append(names, p[len(dir)+1:])
			}
		}
		if len(names) == 0 && !in.acct().dirs[dir] {
			return Tuple{SliceV{}, notExist(in)}
		}
		sort.Strings(names)
		osPkg := in.prog.ImportedPackage("os")
		if osPkg == nil {
			panic(unsupported("os package not loaded"))
		}
		dt := osPkg.Type("unixDirent")
		if dt == nil {
			panic(unsupported("os.unixDirent not found"))
		}
		T := dt.Type()
		ni := structFieldIndex(T, "name")
		out := make([]Value, len(names))
		for i, n := range names {
			var cell Value = in.zero(T)
			cell.(Struct)[ni] = n
			out[i] = Iface{T: types.NewPointer(T), V: &cell}
		}
		return Tuple{in.mkSliceConst(out), Iface{}}
	}
	strList := func(in *Interp, v Value, what string) []string {
		sl := v.(SliceV)
		n := int(in.concretize(sl.N, what))
		off := int(in.concretize(sl.Off, what))
		out := make([]string, n)
		for i := range out {
			out[i] = in.concreteStr(sl.Arr[off+i], what)
		}
		return out
	}
	s["path/filepath.Join"] = func(in *Interp, fr *frame, a []Value) Value {
		return filepath.Join(strList(in, a[0], "filepath.Join")...)
	}
	s["path/filepath.Dir"] = func(in *Interp, fr *frame, a []Value) Value {
		return filepath.Dir(in.concreteStr(a[0], "filepath.Dir"))
	}
	s["path/filepath.Ext"] = func(in *Interp, fr *frame, a []Value) Value {
		return filepath.Ext(in.concreteStr(a[0], "filepath.Ext"))
	}
	s["path/filepath.Base"] = func(in *Interp, fr *frame, a []Value) Value {
		return filepath.Base(in.concreteStr(a[0], "filepath.Base"))
	}
	s["strings.Join"] = func(in *Interp, fr *frame, a []Value) Value {
		return strings.Join(strList(in, a[0], "strings.Join"), in.concreteStr(a[1], "strings.Join"))
	}
	// RADIUS server behind the client's exchange: accepts (logged) or is unreachable, per request
	s["layeh.com/radius.Exchange"] = func(in *Interp, fr *frame, a []Value) Value {
		ae := in.acct()
		in.crashPoint("radius exchange")
		up := ae.radMode == 1
		if ae.radMode == 0 {
			up = in.pick("radius-server", 2) == 0
		}
		sig := fr.fn.Signature
		if !up {
			return Tuple{(*Value)(nil), in.mkError("radius: server unreachable")}
		}
		pt := sig.Params().At(1).Type()
		p := a[1].(*Value)
		cp := in.deepCopy(*p, map[*Value]*Value{})
		ae.radLog = append(ae.radLog, radRec{pkt: &cp, typ: pt})
		rt := sig.Results().At(0).Type().(*types.Pointer).Elem()
		var resp Value = in.zero(rt)
		ci := structFieldIndex(rt, "Code")
		resp.(Struct)[ci] = in.tc.Const(5, resp.(Struct)[ci].(*Term).W) // Accounting-Response
		return Tuple{&resp, Iface{}}
	}
	s[repoModule+"/pkg/radius.addMessageAuthenticator"] = func(in *Interp, fr *frame, a []Value) Value { return Iface{} }
	s["(*golang.org/x/time/rate.Limiter).Wait"] = func(in *Interp, fr *frame, a []Value) Value { return Iface{} }
	s["(*golang.org/x/time/rate.Limiter).Allow"] = func(in *Interp, fr *frame, a []Value) Value { return tTrue }

	// a ticker delivers exactly one tick (the loop body that waits on it runs once, then the goroutine parks)
	s["time.NewTicker"] = func(in *Interp, fr *frame, a []Value) Value {
		T := fr.fn.Signature.Results().At(0).Type().(*types.Pointer).Elem()
		var cell Value = in.zero(T)
		st := T.Underlying().(*types.Struct)
		ci := structFieldIndex(T, "C")
		elem := st.Field(ci).Type().Underlying().(*types.Chan).Elem()
		cell.(Struct)[ci] = &ChanV{Cap: 1, Elem: elem, Buf: []Value{in.mkTime(in.clockNow())}}
		return &cell
	}
	s["(*time.Ticker).Stop"] = func(in *Interp, fr *frame, a []Value) Value { return nil }
	s["(*time.Ticker).Reset"] = func(in *Interp, fr *frame, a []Value) Value { return nil }
	h["vRadiusServer"] = func(in *Interp, fr *frame, a []Value) Value {
		in.acct().radMode = int(in.concretize(a[0].(*Term), "radius mode"))
		return nil
	}
	h["vRadiusLog"] = func(in *Interp, fr *frame, a []Value) Value {
		ae := in.acct()
		out := make([]Value, len(ae.radLog))
		for i, r := range ae.radLog {
			out[i] = Iface{T: r.typ, V: r.pkt}
		}
		return in.mkSliceConst(out)
	}
	h["vFSFiles"] = func(in *Interp, fr *frame, a []Value) Value {
		var names []string
		for p := range in.acct().files {
			names = append(names, p)
		}
		sort.Strings(names)
		out := make([]Value, len(names))
		for i, n := range names {
			out[i] = n
		}
		return in.mkSliceConst(out)
	}
	// vCrashable(f) runs f; the process may die immediately before any file-system mutation or RADIUS exchange
	// inside it (one crash at most). Returns true if it died: goroutines, timers and held locks are gone.
	h["vCrashable"] = func(in *Interp, fr *frame, a []Value) Value {
		ae := in.acct()
		saveTop := in.top
		ae.crashArmed = true
		crashed := false
		func() {
			defer func() {
				if r := recover(); r != nil {
					if _, ok := r.(crashSignal); ok {
						crashed = true
						in.top = saveTop
						return
					}
					panic(r)
				}
			}()
			in.call(fr, a[0], nil, nil)
		}()
		ae.crashArmed = false
		if crashed {
			in.env.pending = nil
			in.env.timers = nil
			in.env.locks = map[*Value]int{}
		}
		return in.tc.Bool(crashed)
	}
}
