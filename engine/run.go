package main

import (
	"encoding/json"
	"fmt"
	"go/types"
	"os"
	"path/filepath"
	"runtime/debug"
	"sort"
	"strings"
	"sync"
	"time"

	"golang.org/x/tools/go/packages"
	"golang.org/x/tools/go/ssa"
	"golang.org/x/tools/go/ssa/ssautil"
)

const repoModule = "github.com/codelaboratoryltd/bng"

type HarnessSpec struct {
	Pkg      string         `json:"pkg"` // e.g. pkg/pppoe
	Fn       string         `json:"fn"`
	Params   map[string]int `json:"params,omitempty"`   // quick tier
	Thorough map[string]int `json:"thorough,omitempty"` // overrides for thorough tier
	Reach    []string       `json:"reach,omitempty"`    // vReach ids that must be reachable
	Unwind   int            `json:"unwind,omitempty"`
	MaxPaths int            `json:"max_paths,omitempty"`
	Note     string         `json:"note,omitempty"`
	Tier     string         `json:"tier,omitempty"` // "thorough": only run in thorough tier
	Replay   string         `json:"replay,omitempty"`
	// HangIsViolation: an exhausted unwinding / step bound on a feasible path is the property's own
	// "completes within a bound linear in the input" clause failing (C09 decoders on B-byte inputs), not an
	// inconclusive run.
	HangIsViolation bool `json:"hang_is_violation,omitempty"`
}

type PropertySpec struct {
	ID        string        `json:"id"`
	Level     string        `json:"level"`
	Harnesses []HarnessSpec `json:"harnesses"`
	Assume    []string      `json:"assumptions"`
	Bounds    string        `json:"bounds"`
}

type Loaded struct {
	prog  *ssa.Program
	pkgs  map[string]*ssa.Package // by repo-relative dir
	fset  interface{}
	loadS float64
}

func harnessDir() string {
	if d := os.Getenv("VERIF_DIR"); d != "" {
		return d
	}
	return "/verif"
}

func repoDir() string {
	if d := os.Getenv("VERIF_REPO"); d != "" {
		return d
	}
	return "/repo"
}

// overlayFor builds the overlay map injecting harness sources for the given repo-relative package dirs.
// overlayDeps: harness packages whose sources reference helpers overlaid into another repo package.
var overlayDeps = map[string][]string{"pkg/dhcp": {"pkg/ebpf", "pkg/nat", "pkg/qos", "pkg/radius"}, "pkg/pppoe": {"pkg/radius"}}

func overlayFor(pkgDirs []string, native bool) (map[string][]byte, error) {
	ov := map[string][]byte{}
	seen := map[string]bool{}
	var all []string
	for _, pd := range pkgDirs {
		for _, d := range append([]string{pd}, overlayDeps[pd]...) {
			if !seen[d] {
				seen[d] = true
				all = append(all, d)
			}
		}
	}
	pkgDirs = all
	api, err := os.ReadFile(filepath.Join(harnessDir(), "harness", "api.go.tmpl"))
	if err != nil {
		return nil, err
	}
	for _, pd := range pkgDirs {
		base := filepath.Base(pd)
		hdir := filepath.Join(harnessDir(), "harness", strings.TrimPrefix(pd, "pkg/"))
		ents, err := os.ReadDir(hdir)
		if err != nil {
			return nil, fmt.Errorf("harness dir for %s: %w", pd, err)
		}
		pkgName := base
		for _, e := range ents {
			if !strings.HasSuffix(e.Name(), ".go") {
				continue
			}
			if strings.HasSuffix(e.Name(), "_test.go") && !native {
				continue
			}
			src, err := os.ReadFile(filepath.Join(hdir, e.Name()))
			if err != nil {
				return nil, err
			}
			ov[filepath.Join(repoDir(), pd, "zz_verif_"+e.Name())] = src
			for _, ln := range strings.Split(string(src), "\n") {
				if strings.HasPrefix(ln, "package ") {
					pkgName = strings.TrimSpace(strings.TrimPrefix(ln, "package "))
					break
				}
			}
		}
		ov[filepath.Join(repoDir(), pd, "zz_verif_api.go")] = []byte(strings.ReplaceAll(string(api), "PKGNAME", pkgName))
	}
	return ov, nil
}

func loadProgram(pkgDirs []string) (*Loaded, error) {
	t0 := time.Now()
	ov, err := overlayFor(pkgDirs, false)
	if err != nil {
		return nil, err
	}
	env := append(os.Environ(), "GOFLAGS=", "GOPROXY=off", "GOSUMDB=off", "GOTOOLCHAIN=local", "CGO_ENABLED=0")
	cfg := &packages.Config{
		Mode:       packages.LoadAllSyntax,
		Dir:        repoDir(),
		Env:        env,
		Overlay:    ov,
		BuildFlags: []string{"-tags=verif"},
	}
	var pats []string
	for _, pd := range pkgDirs {
		pats = append(pats, "./"+pd)
	}
	initial, err := packages.Load(cfg, pats...)
	if err != nil {
		return nil, err
	}
	nerr := 0
	packages.Visit(initial, nil, func(p *packages.Package) {
		for _, e := range p.Errors {
			if nerr < 20 {
				fmt.Fprintf(os.Stderr, "load error: %s: %v\n", p.PkgPath, e)
			}
			nerr++
		}
	})
	if nerr > 0 {
		return nil, fmt.Errorf("%d package load errors (the tree does not compile with the harness overlay)", nerr)
	}
	prog, spkgs := ssautil.AllPackages(initial, ssa.InstantiateGenerics)
	ld := &Loaded{prog: prog, pkgs: map[string]*ssa.Package{}}
	for i, p := range initial {
		if spkgs[i] == nil {
			return nil, fmt.Errorf("no SSA package for %s", p.PkgPath)
		}
		spkgs[i].Build()
		rel := strings.TrimPrefix(p.PkgPath, repoModule+"/")
		ld.pkgs[rel] = spkgs[i]
	}
	ld.loadS = time.Since(t0).Seconds()
	return ld, nil
}

type PathResult struct {
	End        PathEndKind
	Msg        string
	Violations []*Violation
	Forks      [][]Decision
	Reached    map[string]bool
	Steps      int
	Inexact    bool
	Unknowns   []string
	EngineErr  string
	Sample     string
	NDCount    int
	Trace      []WitnessVal
}

type HarnessResult struct {
	Spec         HarnessSpec
	Paths        int
	Ends         map[string]int
	Violations   []*Violation
	Reached      map[string]bool
	Instrs       int
	Queries      SolverStats
	Unsupported  map[string]int
	Unwinds      map[string]int
	EngineErrs   []string
	Inexact      int
	UnknownAsrt  int
	Wall         float64
	Funcs        map[string]bool
	Stubs        map[string]bool
	Samples      []string
	Truncated    bool
	InternalSyms bool
	Lossy        int
	UnknownMsgs  []string
	TraceSamples [][]WitnessVal
	Params       map[string]int
	DecHist      map[int]int
}

var endNames = map[PathEndKind]string{EndNormal: "normal", EndInfeasible: "infeasible", EndAssumeFalse: "assume-false",
	EndUnsupported: "unsupported", EndUnwind: "unwind", EndSteps: "steps", EndBlocked: "blocked", EndViolation: "violation"}

var initAllow = []string{
	"errors", "io", "encoding/binary", "bytes", "strings", "strconv", "net", "sort", "math", "unicode/utf8", "unicode",
	"encoding/hex", "hash/fnv", "hash/crc32", "crypto/md5", "math/bits", "slices", "maps", "fmt", "time", "context",
	"github.com/insomniacslk/dhcp/", "layeh.com/radius", "github.com/codelaboratoryltd/bng/", "math/big", "net/netip", "internal/bytealg",
	"hash", "crypto", "crypto/hmac", "sync", "sync/atomic", "internal/itoa", "github.com/insomniacslk/dhcp/iana",
	"github.com/u-root/uio/", "golang.org/x/time/rate",
}

func initAllowed(path string) bool {
	for _, a := range initAllow {
		if path == a || (strings.HasSuffix(a, "/") && strings.HasPrefix(path+"/", a)) || (strings.HasSuffix(a, "/") && strings.HasPrefix(path, a)) {
			return true
		}
	}
	return false
}

type Runner struct {
	ld      *Loaded
	cfg     Config
	workers int
}

// baseState holds the dependency-package globals initialised once per worker and shared by its paths
// (dependencies are assumed not to mutate their package-level state after init; repo packages are re-initialised per path).
type baseState struct {
	globals map[*ssa.Global]*Value
	initRun map[*ssa.Package]bool
	notes   []string
}

func (r *Runner) makeBase(pkg *ssa.Package) *baseState {
	in := r.newInterp(nil, "init", nil)
	in.path = &PathState{reached: map[string]bool{}}
	// initialise the transitive imports of pkg that are allowed and outside the repo module
	seen := map[*types.Package]bool{}
	var visit func(p *types.Package)
	visit = func(p *types.Package) {
		if seen[p] {
			return
		}
		seen[p] = true
		for _, imp := range p.Imports() {
			visit(imp)
		}
		if strings.HasPrefix(p.Path(), repoModule) || !initAllowed(p.Path()) {
			return
		}
		if sp := r.ld.prog.Package(p); sp != nil {
			in.inInit++
			in.runInit(sp)
			in.inInit--
		}
	}
	visit(pkg.Pkg)
	b := &baseState{globals: map[*ssa.Global]*Value{}, initRun: map[*ssa.Package]bool{}, notes: in.initNotes}
	if os.Getenv("VERIF_DEBUG") != "" {
		for _, n := range in.initNotes {
			fmt.Fprintln(os.Stderr, "init note:", n)
		}
	}
	for g, c := range in.globals {
		if g.Pkg != nil && !strings.HasPrefix(g.Pkg.Pkg.Path(), repoModule) {
			b.globals[g] = c
		}
	}
	for p, ok := range in.initRun {
		if ok && !strings.HasPrefix(p.Pkg.Path(), repoModule) {
			b.initRun[p] = true
		}
	}
	return b
}

func (r *Runner) newInterp(solver *Solver, harness string, base *baseState) *Interp {
	in := &Interp{prog: r.ld.prog, tc: NewTermCtx(), solver: solver, cfg: &r.cfg, globals: map[*ssa.Global]*Value{},
		initRun: map[*ssa.Package]bool{}, harness: harness, funcsSeen: map[string]bool{}, stubsUsed: map[string]bool{},
		wraps: map[*opaqueErr][]Value{}, params: map[string]int{}}
	if base != nil {
		for g, c := range base.globals {
			in.globals[g] = c
		}
		for p := range base.initRun {
			in.initRun[p] = true
		}
	}
	in.env = newEnv(in)
	if rp := r.ld.prog.ImportedPackage("runtime"); rp != nil {
		if t := rp.Type("errorString"); t != nil {
			in.runtimeErrT = t.Object().Type()
		}
	}
	if in.runtimeErrT == nil {
		in.runtimeErrT = &opaqueType{"runtime.Error"}
	}
	return in
}

// runInit executes the package initialiser with the dependency policy.
func (in *Interp) runInit(pkg *ssa.Package) {
	if in.initRun[pkg] {
		return
	}
	in.initRun[pkg] = true
	initFn := pkg.Func("init")
	if initFn == nil {
		return
	}
	func() {
		defer func() {
			if r := recover(); r != nil {
				if pe, ok := r.(pathEnd); ok {
					in.initNotes = append(in.initNotes, fmt.Sprintf("init %s: %s", pkg.Pkg.Path(), pe.Msg))
					return
				}
				if gp, ok := r.(*GoPanic); ok {
					in.initNotes = append(in.initNotes, fmt.Sprintf("init %s: panic %s", pkg.Pkg.Path(), gp.Msg))
					return
				}
				in.initNotes = append(in.initNotes, fmt.Sprintf("init %s: engine error %v at %v", pkg.Pkg.Path(), r, in.stackTrace()))
			}
		}()
		in.execSSA(nil, initFn, nil, nil)
	}()
}

func (r *Runner) runPath(solver *Solver, base *baseState, pkg *ssa.Package, spec HarnessSpec, params map[string]int, prefix []Decision) (res PathResult, in *Interp) {
	in = r.newInterp(solver, spec.Fn, base)
	in.params = params
	if spec.Unwind > 0 {
		c := *in.cfg
		c.Unwind = spec.Unwind
		in.cfg = &c
	}
	in.path = &PathState{prefix: prefix, reached: map[string]bool{}}
	solver.Push()
	defer solver.Pop()
	defer func() {
		p := in.path
		res.Forks = p.forks
		res.Reached = p.reached
		res.Steps = p.steps
		res.Inexact = p.inexact
		res.Unknowns = p.unknowns
		res.Violations = p.violations
		res.NDCount = len(p.nd)
		if rec := recover(); rec != nil {
			switch e := rec.(type) {
			case pathEnd:
				res.End, res.Msg = e.Kind, e.Msg
				if spec.HangIsViolation && (e.Kind == EndUnwind || e.Kind == EndSteps) && in.definitelyFeasible() {
					in.ensureModel()
					site := "?"
					if in.top != nil {
						site = in.top.fn.String()
					}
					in.report("hang", "processing does not complete within a bound linear in the input length ("+e.Msg+")", site, in.path.model)
					res.Violations = in.path.violations
					res.End = EndViolation
				}
				if e.Kind == EndUnsupported && os.Getenv("VERIF_UNSUP_STACK") != "" {
					res.Msg += fmt.Sprintf(" at %v", in.stackTrace())
				}
			case *GoPanic:
				// uncaught panic of the program under test
				res.End, res.Msg = EndViolation, "panic: "+e.Msg
				if in.definitelyFeasible() {
					in.ensureModel()
					site := e.Site
					in.reportPanic(e, site)
					res.Violations = in.path.violations
				}
			default:
				res.End = EndUnsupported
				res.EngineErr = fmt.Sprintf("engine error: %v\n%s\nat %v", rec, debug.Stack(), in.stackTrace())
				res.Msg = fmt.Sprintf("engine error: %v", rec)
			}
		}
		if len(in.path.nd) > 0 || true {
			res.Sample = in.describePath(res)
		}
	}()
	in.inInit++
	in.runInit(pkg)
	in.inInit--
	fn := pkg.Func(spec.Fn)
	if fn == nil {
		panic(unsupported("harness function not found: " + spec.Fn))
	}
	in.callSSA(nil, fn, nil, nil)
	res.End = EndNormal
	if len(prefix)%3 == 0 && !in.usedInternal && in.lossyStrings == 0 && in.feasible() {
		in.ensureModel()
		res.Trace = in.witness(in.path.model)
	}
	return
}

func (in *Interp) reportPanic(e *GoPanic, site string) {
	p := in.path
	v := &Violation{Harness: in.harness, Kind: "panic", Msg: e.Msg, Site: site, Tags: append([]string(nil), p.tags...),
		ND: in.witness(p.model), Model: p.model, Stack: e.Stack}
	v.Key = violationKey(v)
	p.violations = append(p.violations, v)
}

func (in *Interp) describePath(res PathResult) string {
	var sb strings.Builder
	fmt.Fprintf(&sb, "end=%s decisions=%d nd=%d steps=%d", endNames[res.End], len(in.path.decisions), len(in.path.nd), in.path.steps)
	if len(in.path.observe) > 0 {
		fmt.Fprintf(&sb, " observe=%v", in.path.observe)
	}
	if res.Msg != "" {
		fmt.Fprintf(&sb, " msg=%q", res.Msg)
	}
	return sb.String()
}

func (r *Runner) RunHarness(spec HarnessSpec, tier string) *HarnessResult {
	t0 := time.Now()
	hr := &HarnessResult{Spec: spec, Ends: map[string]int{}, Reached: map[string]bool{}, Unsupported: map[string]int{},
		Unwinds: map[string]int{}, Funcs: map[string]bool{}, Stubs: map[string]bool{}}
	pkg := r.ld.pkgs[spec.Pkg]
	if pkg == nil {
		hr.EngineErrs = append(hr.EngineErrs, "package not loaded: "+spec.Pkg)
		return hr
	}
	params := map[string]int{}
	for k, v := range spec.Params {
		params[k] = v
	}
	if tier == "thorough" {
		for k, v := range spec.Thorough {
			params[k] = v
		}
	}
	hr.Params = params
	maxPaths := r.cfg.MaxPaths
	if spec.MaxPaths > 0 {
		maxPaths = spec.MaxPaths
	}
	if tier == "thorough" {
		maxPaths *= 4
	}
	var mu sync.Mutex
	cond := sync.NewCond(&mu)
	queue := [][]Decision{nil}
	active := 0
	started := 0
	seenViol := map[string]bool{}
	var wg sync.WaitGroup
	for w := 0; w < r.workers; w++ {
		wg.Add(1)
		go func() {
			defer wg.Done()
			solver, err := NewSolver(r.cfg.SolverKind, r.cfg.TimeoutMs)
			if err != nil {
				mu.Lock()
				hr.EngineErrs = append(hr.EngineErrs, "solver: "+err.Error())
				mu.Unlock()
				return
			}
			defer func() {
				mu.Lock()
				hr.Queries.Sat += solver.Stats.Sat
				hr.Queries.Unsat += solver.Stats.Unsat
				hr.Queries.Unknown += solver.Stats.Unknown
				hr.Queries.Time += solver.Stats.Time
				hr.Queries.Errors += solver.Stats.Errors
				mu.Unlock()
				solver.Close()
			}()
			base := r.makeBase(pkg)
			for {
				mu.Lock()
				for len(queue) == 0 && active > 0 {
					cond.Wait()
				}
				if len(queue) == 0 && active == 0 {
					mu.Unlock()
					cond.Broadcast()
					return
				}
				if started >= maxPaths {
					hr.Truncated = true
					queue = nil
					mu.Unlock()
					cond.Broadcast()
					if active == 0 {
						return
					}
					mu.Lock()
					for active > 0 {
						cond.Wait()
					}
					mu.Unlock()
					return
				}
				prefix := queue[len(queue)-1]
				queue = queue[:len(queue)-1]
				active++
				started++
				mu.Unlock()

				if solver.dead {
					solver.Close()
					solver, _ = NewSolver(r.cfg.SolverKind, r.cfg.TimeoutMs)
				}
				res, in := r.runPath(solver, base, pkg, spec, params, prefix)

				mu.Lock()
				active--
				hr.Paths++
				if hr.DecHist == nil {
					hr.DecHist = map[int]int{}
				}
				hr.DecHist[len(in.path.decisions)]++
				hr.Ends[endNames[res.End]]++
				hr.Instrs += in.instrs
				if res.Inexact {
					hr.Inexact++
				}
				for _, u := range res.Unknowns {
					if len(hr.UnknownMsgs) < 10 {
						hr.UnknownMsgs = append(hr.UnknownMsgs, u)
					}
				}
				hr.UnknownAsrt += in.unknownAsserts
				hr.Lossy += in.lossyStrings
				if in.usedInternal {
					hr.InternalSyms = true
				}
				for k := range res.Reached {
					hr.Reached[k] = true
				}
				for k := range in.funcsSeen {
					hr.Funcs[k] = true
				}
				for k := range in.stubsUsed {
					hr.Stubs[k] = true
				}
				switch res.End {
				case EndUnsupported:
					hr.Unsupported[res.Msg]++
					if res.EngineErr != "" && len(hr.EngineErrs) < 5 {
						hr.EngineErrs = append(hr.EngineErrs, res.EngineErr)
					}
				case EndUnwind, EndSteps:
					hr.Unwinds[res.Msg]++
				}
				for _, v := range res.Violations {
					if !seenViol[v.Key] {
						seenViol[v.Key] = true
						hr.Violations = append(hr.Violations, v)
					}
				}
				if res.Trace != nil && len(hr.TraceSamples) < r.cfg.TraceSamples {
					hr.TraceSamples = append(hr.TraceSamples, res.Trace)
				}
				if len(hr.Samples) < 6 && (res.End == EndNormal || res.End == EndViolation) {
					hr.Samples = append(hr.Samples, res.Sample)
				}
				if !hr.Truncated {
					queue = append(queue, res.Forks...)
				}
				mu.Unlock()
				cond.Broadcast()
			}
		}()
	}
	wg.Wait()
	hr.Wall = time.Since(t0).Seconds()
	sort.Slice(hr.Violations, func(i, j int) bool { return hr.Violations[i].Key < hr.Violations[j].Key })
	return hr
}

func writeJSON(path string, v interface{}) error {
	b, err := json.MarshalIndent(v, "", " ")
	if err != nil {
		return err
	}
	os.MkdirAll(filepath.Dir(path), 0o755)
	return os.WriteFile(path, append(b, '\n'), 0o644)
}

var _ = types.Typ
