package main

// math/big.Int modelled as a 128-bit two's-complement value stored in the Int's own `abs` slice as two 64-bit
// words [lo, hi] (the `neg` field stays false; sign = top bit). Every (*big.Int) method the repository uses is
// stubbed here, so the non-standard encoding is never seen by real math/big code. An operation whose result does not
// fit in 127 bits is outside the model: an implicit assertion ("big.Int exceeds 127 bits") guards Lsh/Mul.

import (
	"fmt"
	"go/types"
	"math/big"
)

type big128 struct{ hi, lo *Term }

func (in *Interp) bigCell(v Value) *Value {
	p, _ := v.(*Value)
	if p == nil {
		in.rtPanic("invalid memory address or nil pointer dereference")
	}
	return p
}

func (in *Interp) bigGet(v Value) big128 {
	p := in.bigCell(v)
	st := (*p).(Struct)
	sl := st[1].(SliceV)
	if sl.Arr == nil || len(sl.Arr) < 2 {
		return big128{in.k64(0), in.k64(0)}
	}
	return big128{hi: sl.Arr[1].(*Term), lo: sl.Arr[0].(*Term)}
}

func (in *Interp) bigSet(v Value, x big128) Value {
	p := in.bigCell(v)
	st := (*p).(Struct)
	n := in.k64(2)
	st[0] = tFalse
	st[1] = SliceV{Arr: []Value{x.lo, x.hi}, Off: in.k64(0), N: n, C: n}
	return v
}

func (in *Interp) bigNew(t types.Type) Value {
	var cell Value = in.zero(t)
	return &cell
}

func (in *Interp) bigAdd(a, b big128) big128 {
	tc := in.tc
	lo := tc.Bin(OpAdd, a.lo, b.lo)
	carry := tc.Ite(tc.Cmp(OpULt, lo, a.lo), in.k64(1), in.k64(0))
	hi := tc.Bin(OpAdd, tc.Bin(OpAdd, a.hi, b.hi), carry)
	return big128{hi, lo}
}

func (in *Interp) bigNeg(a big128) big128 {
	tc := in.tc
	return in.bigAdd(big128{tc.BNot(a.hi), tc.BNot(a.lo)}, big128{in.k64(0), in.k64(1)})
}

func (in *Interp) bigIsNeg(a big128) *Term { return in.tc.Cmp(OpSLt, a.hi, in.k64(0)) }

func (in *Interp) bigShl(a big128, n uint) big128 {
	tc := in.tc
	switch {
	case n == 0:
		return a
	case n >= 128:
		return big128{in.k64(0), in.k64(0)}
	case n >= 64:
		return big128{tc.Bin(OpShl, a.lo, in.k64(int64(n-64))), in.k64(0)}
	}
	hi := tc.Bin(OpBOr, tc.Bin(OpShl, a.hi, in.k64(int64(n))), tc.Bin(OpLShr, a.lo, in.k64(int64(64-n))))
	return big128{hi, tc.Bin(OpShl, a.lo, in.k64(int64(n)))}
}

func (in *Interp) bigShr(a big128, n uint) big128 { // logical (non-negative operands)
	tc := in.tc
	switch {
	case n == 0:
		return a
	case n >= 128:
		return big128{in.k64(0), in.k64(0)}
	case n >= 64:
		return big128{in.k64(0), tc.Bin(OpLShr, a.hi, in.k64(int64(n-64)))}
	}
	lo := tc.Bin(OpBOr, tc.Bin(OpLShr, a.lo, in.k64(int64(n))), tc.Bin(OpShl, a.hi, in.k64(int64(64-n))))
	return big128{tc.Bin(OpLShr, a.hi, in.k64(int64(n))), lo}
}

// bigPow2 reports whether a concrete x is a power of two and its exponent.
func bigPow2(x big128) (uint, bool) {
	if !x.hi.IsConst() || !x.lo.IsConst() {
		return 0, false
	}
	v := new(big.Int).Lsh(new(big.Int).SetUint64(x.hi.V), 64)
	v.Or(v, new(big.Int).SetUint64(x.lo.V))
	if v.Sign() <= 0 {
		return 0, false
	}
	n := uint(v.BitLen() - 1)
	if new(big.Int).Lsh(big.NewInt(1), n).Cmp(v) != 0 {
		return 0, false
	}
	return n, true
}

func init() {
	s := stubs
	bigT := func(fr *frame) types.Type {
		return fr.fn.Signature.Results().At(0).Type().(*types.Pointer).Elem()
	}
	s["math/big.NewInt"] = func(in *Interp, fr *frame, a []Value) Value {
		z := in.bigNew(bigT(fr))
		x := a[0].(*Term)
		hi := in.tc.Ite(in.tc.Cmp(OpSLt, x, in.k64(0)), in.k64(-1), in.k64(0))
		return in.bigSet(z, big128{hi, x})
	}
	s["(*math/big.Int).SetUint64"] = func(in *Interp, fr *frame, a []Value) Value {
		return in.bigSet(a[0], big128{in.k64(0), a[1].(*Term)})
	}
	s["(*math/big.Int).SetInt64"] = func(in *Interp, fr *frame, a []Value) Value {
		x := a[1].(*Term)
		hi := in.tc.Ite(in.tc.Cmp(OpSLt, x, in.k64(0)), in.k64(-1), in.k64(0))
		return in.bigSet(a[0], big128{hi, x})
	}
	s["(*math/big.Int).Set"] = func(in *Interp, fr *frame, a []Value) Value {
		return in.bigSet(a[0], in.bigGet(a[1]))
	}
	s["(*math/big.Int).Uint64"] = func(in *Interp, fr *frame, a []Value) Value {
		// math/big: the low 64 bits of |x| (for a negative x this is NOT the two's-complement word)
		x := in.bigGet(a[0])
		return in.tc.Ite(in.bigIsNeg(x), in.bigNeg(x).lo, x.lo)
	}
	s["(*math/big.Int).Int64"] = func(in *Interp, fr *frame, a []Value) Value { return in.bigGet(a[0]).lo }
	s["(*math/big.Int).IsUint64"] = func(in *Interp, fr *frame, a []Value) Value {
		return in.tc.Eq(in.bigGet(a[0]).hi, in.k64(0))
	}
	s["(*math/big.Int).Sign"] = func(in *Interp, fr *frame, a []Value) Value {
		x := in.bigGet(a[0])
		tc := in.tc
		zero := tc.And(tc.Eq(x.hi, in.k64(0)), tc.Eq(x.lo, in.k64(0)))
		return tc.Ite(in.bigIsNeg(x), in.k64(-1), tc.Ite(zero, in.k64(0), in.k64(1)))
	}
	s["(*math/big.Int).Cmp"] = func(in *Interp, fr *frame, a []Value) Value {
		x, y := in.bigGet(a[0]), in.bigGet(a[1])
		tc := in.tc
		lt := tc.Or(tc.Cmp(OpSLt, x.hi, y.hi), tc.And(tc.Eq(x.hi, y.hi), tc.Cmp(OpULt, x.lo, y.lo)))
		eq := tc.And(tc.Eq(x.hi, y.hi), tc.Eq(x.lo, y.lo))
		return tc.Ite(lt, in.k64(-1), tc.Ite(eq, in.k64(0), in.k64(1)))
	}
	s["(*math/big.Int).Add"] = func(in *Interp, fr *frame, a []Value) Value {
		return in.bigSet(a[0], in.bigAdd(in.bigGet(a[1]), in.bigGet(a[2])))
	}
	s["(*math/big.Int).Sub"] = func(in *Interp, fr *frame, a []Value) Value {
		return in.bigSet(a[0], in.bigAdd(in.bigGet(a[1]), in.bigNeg(in.bigGet(a[2]))))
	}
	s["(*math/big.Int).Lsh"] = func(in *Interp, fr *frame, a []Value) Value {
		n := in.concretize(a[2].(*Term), "big.Lsh count")
		if n >= 127 {
			panic(unsupported("big.Int.Lsh beyond the 127-bit model"))
		}
		return in.bigSet(a[0], in.bigShl(in.bigGet(a[1]), uint(n)))
	}
	s["(*math/big.Int).Rsh"] = func(in *Interp, fr *frame, a []Value) Value {
		n := in.concretize(a[2].(*Term), "big.Rsh count")
		return in.bigSet(a[0], in.bigShr(in.bigGet(a[1]), uint(n)))
	}
	s["(*math/big.Int).Mul"] = func(in *Interp, fr *frame, a []Value) Value {
		x, y := in.bigGet(a[1]), in.bigGet(a[2])
		if n, ok := bigPow2(y); ok {
			return in.bigSet(a[0], in.bigShl(x, n))
		}
		if n, ok := bigPow2(x); ok {
			return in.bigSet(a[0], in.bigShl(y, n))
		}
		// small operands: 64x64 -> 64 when both high words are zero (asserted)
		tc := in.tc
		in.assertTerm(tc.And(tc.Eq(x.hi, in.k64(0)), tc.Eq(y.hi, in.k64(0))), "big.Int.Mul operands exceed the 64-bit model", "math/big stub")
		return in.bigSet(a[0], big128{in.k64(0), tc.Bin(OpMul, x.lo, y.lo)})
	}
	s["(*math/big.Int).Div"] = func(in *Interp, fr *frame, a []Value) Value {
		x, y := in.bigGet(a[1]), in.bigGet(a[2])
		if n, ok := bigPow2(y); ok {
			// Euclidean division of a non-negative x (callers check Sign() first)
			return in.bigSet(a[0], in.bigShr(x, n))
		}
		panic(unsupported("big.Int.Div by a non power of two"))
	}
	s["(*math/big.Int).Bit"] = func(in *Interp, fr *frame, a []Value) Value {
		x := in.bigGet(a[0])
		i := a[1].(*Term)
		tc := in.tc
		in.check(tc.Cmp(OpSLe, in.k64(0), i), "negative bit index")
		lowBit := tc.Bin(OpBAnd, tc.Bin(OpLShr, x.lo, i), in.k64(1))
		hiBit := tc.Bin(OpBAnd, tc.Bin(OpLShr, x.hi, tc.Bin(OpSub, i, in.k64(64))), in.k64(1))
		r := tc.Ite(tc.Cmp(OpULt, i, in.k64(64)), lowBit, tc.Ite(tc.Cmp(OpULt, i, in.k64(128)), hiBit, in.k64(0)))
		return r // uint is 64-bit
	}
	s["(*math/big.Int).SetBit"] = func(in *Interp, fr *frame, a []Value) Value {
		x := in.bigGet(a[1])
		i := a[2].(*Term)
		b := a[3].(*Term)
		tc := in.tc
		in.check(tc.Cmp(OpSLe, in.k64(0), i), "negative bit index")
		if !in.decide(tc.Cmp(OpULt, i, in.k64(127))) {
			panic(unsupported("big.Int.SetBit beyond the 127-bit model"))
		}
		inLow := tc.Cmp(OpULt, i, in.k64(64))
		mLow := tc.Ite(inLow, tc.Bin(OpShl, in.k64(1), i), in.k64(0))
		mHi := tc.Ite(inLow, in.k64(0), tc.Bin(OpShl, in.k64(1), tc.Bin(OpSub, i, in.k64(64))))
		set := tc.Ne(b, tc.Const(0, b.W))
		lo := tc.Ite(set, tc.Bin(OpBOr, x.lo, mLow), tc.Bin(OpBAnd, x.lo, tc.BNot(mLow)))
		hi := tc.Ite(set, tc.Bin(OpBOr, x.hi, mHi), tc.Bin(OpBAnd, x.hi, tc.BNot(mHi)))
		return in.bigSet(a[0], big128{hi, lo})
	}
	s["(*math/big.Int).SetBytes"] = func(in *Interp, fr *frame, a []Value) Value {
		sl := a[1].(SliceV)
		n := int(in.concretize(sl.N, "big.SetBytes length"))
		if n > 16 {
			panic(unsupported("big.Int.SetBytes of more than 16 bytes"))
		}
		tc := in.tc
		hi, lo := in.k64(0), in.k64(0)
		for k := 0; k < n; k++ {
			b := in.sel(sl.Arr, tc.Bin(OpAdd, sl.Off, in.k64(int64(k)))).(*Term)
			pos := n - 1 - k // byte significance
			sh := tc.Bin(OpShl, tc.ZExt(b, 64), in.k64(int64(8*(pos%8))))
			if pos >= 8 {
				hi = tc.Bin(OpBOr, hi, sh)
			} else {
				lo = tc.Bin(OpBOr, lo, sh)
			}
		}
		if n == 16 {
			// top bit would read as a sign in this model
			in.assertTerm(tc.Cmp(OpSLe, in.k64(0), hi), "big.Int.SetBytes value exceeds the 127-bit model", "math/big stub")
		}
		return in.bigSet(a[0], big128{hi, lo})
	}
	s["(*math/big.Int).Bytes"] = func(in *Interp, fr *frame, a []Value) Value {
		x := in.bigGet(a[0])
		tc := in.tc
		full := make([]Value, 16)
		for k := 0; k < 16; k++ {
			pos := 15 - k
			w := x.lo
			if pos >= 8 {
				w = x.hi
			}
			full[k] = tc.Extract(w, 8*(pos%8)+7, 8*(pos%8))
		}
		// number of significant bytes
		n := in.k64(0)
		for k := 15; k >= 0; k-- { // k = index of candidate most significant byte
			nz := tc.Ne(full[k].(*Term), tc.Const(0, 8))
			n = tc.Ite(nz, in.k64(int64(16-k)), n)
		}
		return SliceV{Arr: full, Off: tc.Bin(OpSub, in.k64(16), n), N: n, C: n}
	}
	s["(*math/big.Int).Text"] = func(in *Interp, fr *frame, a []Value) Value {
		x := in.bigGet(a[0])
		base := int(in.concretize(a[1].(*Term), "big.Text base"))
		if !x.hi.IsConst() || !x.lo.IsConst() {
			panic(unsupported("big.Int.Text of a symbolic value"))
		}
		v := new(big.Int).Lsh(new(big.Int).SetUint64(x.hi.V), 64)
		v.Or(v, new(big.Int).SetUint64(x.lo.V))
		return v.Text(base)
	}
	s["(*math/big.Int).String"] = func(in *Interp, fr *frame, a []Value) Value {
		x := in.bigGet(a[0])
		if !x.hi.IsConst() || !x.lo.IsConst() {
			return "<big>"
		}
		v := new(big.Int).Lsh(new(big.Int).SetUint64(x.hi.V), 64)
		v.Or(v, new(big.Int).SetUint64(x.lo.V))
		return v.String()
	}
	s["(*math/big.Int).SetString"] = func(in *Interp, fr *frame, a []Value) Value {
		str, ok := in.goString(a[1])
		if !ok {
			panic(unsupported("big.Int.SetString of a symbolic string"))
		}
		base := int(in.concretize(a[2].(*Term), "big.SetString base"))
		v, good := new(big.Int).SetString(str, base)
		if !good {
			return Tuple{(*Value)(nil), tFalse}
		}
		if v.BitLen() > 126 || v.Sign() < 0 {
			panic(unsupported(fmt.Sprintf("big.Int.SetString value of %d bits", v.BitLen())))
		}
		lo := new(big.Int).And(v, new(big.Int).SetUint64(^uint64(0))).Uint64()
		hi := new(big.Int).Rsh(v, 64).Uint64()
		in.bigSet(a[0], big128{in.tc.Const(hi, 64), in.tc.Const(lo, 64)})
		return Tuple{a[0], tTrue}
	}
}
