//go:build llir

package main

// Symbolic interpreter for the parsed LLVM IR of the eBPF programs: byte-addressed memory objects with pointer
// provenance, bounds obligations on every access, forking through Interp.decide.

import (
	"fmt"
	"os"
	"sort"
	"strings"
)

// LLObj is a memory object. Bytes are 8-bit terms. Len is the (possibly symbolic) size in bytes; nil means len(Bytes).
type LLObj struct {
	Name     string
	Bytes    []*Term
	Len      *Term
	ReadOnly bool
	Map      *LLMap // non-nil: the object is the handle of this map (a global in section ".maps")

	ptrAt map[int]llPtrSlot // provenance side table: pointer-carrying values stored at constant offsets
	lazy  string            // non-empty: nil bytes are materialised on first read as fresh symbols "<lazy>[i]"
	stack bool              // alloca
	// lenFacts: terms base+k known to be <= Len on the current path (from the program's own bounds checks and from
	// earlier accesses); used to discharge bounds obligations syntactically
	lenFacts []llLenFact
}

type llPtrSlot struct {
	obj  *LLObj
	off  *Term // width = 8*size
	size int
}

// llPtrByte marks bytes that belong to a stored pointer (their integer value is not modelled).
var llPtrByte = &Term{Op: OpVar, W: 8, Name: "<pointer-byte>"}

// LLVal is a run-time value: an integer term (T) optionally carrying a base object (Obj): the numeric value is then
// address(Obj)+T. Pointers are the 64-bit case. Aggregates use Agg.
type LLVal struct {
	T   *Term
	Obj *LLObj
	Agg []LLVal
}

type LLPtr = LLVal

type llRun struct {
	in      *Interp
	mod     *LLModule
	env     *LLEnv
	kind    string
	globals map[string]*LLObj
	ctx     *LLObj
	depth   int
	steps   int
	cur     *LLInstr
	nObj    int
	// ring buffer records reserved and not yet submitted/discarded
	ringRecs []llRingRec
	// if-conversion (speculative execution of small side blocks under a guard)
	specMode  int   // 0 off, 1 on, 2 force (also for concrete conditions; testing)
	guard     *Term // non-nil while a side block is executed speculatively
	undo      []llUndo
	nSpec     int
	specPure  bool // only merge side blocks without stores ...
	specStack bool // ... except stores into the function's own stack objects
	// comparisons of packet pointers against the end pointer, by the Bool term they produced
	lenCmps map[*Term]llLenCmp
}

type llUndo struct {
	obj *LLObj
	idx int
	old *Term
}

// llSpecAbort is thrown when a speculatively executed side block needs something that cannot be done under a guard.
type llSpecAbort struct{ why string }

// llLenCmp: the Bool term is true iff x < Len (strict) or x <= Len (!strict), or the negation thereof (neg).
type llLenCmp struct {
	obj    *LLObj
	x      *Term
	strict bool
	neg    bool
}

type llLenFact struct {
	base *Term // nil: constant
	k    uint64
}

type llFrame struct {
	fn    *LLFunc
	regs  []LLVal
	symBr map[*LLInstr]int
}

func (r *llRun) where() string {
	if r.cur == nil {
		return r.mod.Prog
	}
	return fmt.Sprintf("bpf/%s.c:%s:%%%s: %s", r.mod.Prog, r.cur.Block.Fn.Name, r.cur.Block.Name, r.cur.Text)
}

func (r *llRun) siteKey() string {
	if r.cur == nil {
		return "bpf/" + r.mod.Prog + ".c"
	}
	idx := 0
	for i, x := range r.cur.Block.Instrs {
		if x == r.cur {
			idx = i
		}
	}
	return fmt.Sprintf("bpf/%s.c:%s:%%%s:%d", r.mod.Prog, r.cur.Block.Fn.Name, r.cur.Block.Name, idx)
}

func (r *llRun) fail(format string, a ...interface{}) {
	if r.guard != nil {
		panic(llSpecAbort{"unsupported construct under guard"})
	}
	panic(unsupported("llir: " + fmt.Sprintf(format, a...) + " at " + r.where()))
}

// reportC records a violation of the given kind (oob, null, ...) with the current model, like Interp.report.
func (in *Interp) reportC(kind, msg, site string) {
	if in.definitelyFeasible() {
		in.ensureModel()
		in.report(kind, msg, site, in.path.model)
	}
}

func (r *llRun) violation(kind, msg string) {
	if r.guard != nil {
		panic(llSpecAbort{"possible violation under guard"})
	}
	full := msg + " at " + r.where()
	r.in.reportC(kind, full, r.siteKey())
	panic(pathEnd{EndViolation, full})
}

func (r *llRun) k(v uint64, w int) *Term { return r.in.tc.Const(v, w) }

func (r *llRun) toBool(x *Term) *Term {
	if x.W != 1 {
		r.fail("internal: i1 expected, width %d", x.W)
	}
	return r.in.tc.Eq(x, r.k(1, 1))
}

func (r *llRun) fromBool(b *Term) *Term { return r.in.tc.Ite(b, r.k(1, 1), r.k(0, 1)) }

// ---- syntactic range analysis for offsets ----

func gcd64(a, b uint64) uint64 {
	for b != 0 {
		a, b = b, a%b
	}
	return a
}

// termRange returns lo, hi, stride with value ∈ {lo, lo+stride, ...} ∩ [lo,hi] (stride 0: single value); ok=false: unknown.
func termRange(t *Term, depth int) (lo, hi, stride uint64, ok bool) {
	full := func() (uint64, uint64, uint64, bool) {
		if t.W <= 16 {
			return 0, mask(t.W), 1, true
		}
		return 0, 0, 0, false
	}
	if depth > 24 || t.W == 0 {
		return full()
	}
	const big = uint64(1) << 48
	switch t.Op {
	case OpConst:
		return t.V, t.V, 0, true
	case OpZExt:
		if l, h, s, ok := termRange(t.A[0], depth+1); ok {
			return l, h, s, true
		}
		if t.A[0].W <= 32 {
			return 0, mask(t.A[0].W), 1, true
		}
	case OpExtract:
		if t.V == 0 {
			if l, h, s, ok := termRange(t.A[0], depth+1); ok && h <= mask(t.W) {
				return l, h, s, true
			}
		}
		if t.W <= 32 {
			return 0, mask(t.W), 1, true
		}
	case OpBAnd:
		if t.A[1].IsConst() {
			m := t.A[1].V
			if m == 0 {
				return 0, 0, 0, true
			}
			low := m & -m
			h := m
			if l, h2, _, ok := termRange(t.A[0], depth+1); ok && h2 < h && l == 0 {
				h = h2
			}
			return 0, h, low, true
		}
	case OpShl, OpMul:
		if t.A[1].IsConst() {
			kk := t.A[1].V
			if t.Op == OpShl {
				if kk >= 40 {
					break
				}
				kk = uint64(1) << kk
			}
			if l, h, s, ok := termRange(t.A[0], depth+1); ok && kk < big && h < big && h*kk <= mask(t.W) {
				return l * kk, h * kk, s * kk, true
			}
		}
	case OpLShr:
		if t.A[1].IsConst() && t.A[1].V < 64 {
			if l, h, _, ok := termRange(t.A[0], depth+1); ok {
				return l >> t.A[1].V, h >> t.A[1].V, 1, true
			}
			if t.W-int(t.A[1].V) <= 32 {
				return 0, mask(t.W) >> t.A[1].V, 1, true
			}
		}
	case OpAdd:
		la, ha, sa, oka := termRange(t.A[0], depth+1)
		lb, hb, sb, okb := termRange(t.A[1], depth+1)
		if oka && okb && ha < big && hb < big && ha+hb <= mask(t.W) {
			return la + lb, ha + hb, gcd64(sa, sb), true
		}
	case OpIte:
		la, ha, sa, oka := termRange(t.A[1], depth+1)
		lb, hb, sb, okb := termRange(t.A[2], depth+1)
		if oka && okb {
			d := la - lb
			if lb > la {
				d = lb - la
			}
			return min(la, lb), max(ha, hb), gcd64(gcd64(sa, sb), d), true
		}
	case OpBOr, OpBXor:
		_, ha, _, oka := termRange(t.A[0], depth+1)
		_, hb, _, okb := termRange(t.A[1], depth+1)
		if oka && okb && ha < big && hb < big {
			m := uint64(1)
			for m <= max(ha, hb) {
				m <<= 1
			}
			return 0, m - 1, 1, true
		}
	}
	return full()
}

// ---- memory ----

func (r *llRun) newObj(name string, size int, lazy string) *LLObj {
	r.nObj++
	return &LLObj{Name: name, Bytes: make([]*Term, size), lazy: lazy}
}

func (r *llRun) zeroObj(name string, size int) *LLObj {
	o := r.newObj(name, size, "")
	z := r.k(0, 8)
	for i := range o.Bytes {
		o.Bytes[i] = z
	}
	return o
}

func (r *llRun) byteAt(o *LLObj, i int) *Term {
	b := o.Bytes[i]
	if b == nil {
		if o.lazy == "" {
			r.fail("internal: object %s has no byte %d", o.Name, i)
		}
		b = r.fresh(fmt.Sprintf("%s[%d]", o.lazy, i), 8)
		o.Bytes[i] = b
	}
	if b == llPtrByte {
		r.fail("integer read of byte %d of a stored pointer in object %s (partial or misaligned pointer load)", i, o.Name)
	}
	return b
}

type llAcc struct {
	obj   *LLObj
	off   int
	sym   *Term // symbolic offset (then cands lists the candidate offsets)
	cands []int
}

func (o *LLObj) describe() string {
	if o.Len != nil && !o.Len.IsConst() {
		return fmt.Sprintf("%s (symbolic length, capacity %d)", o.Name, len(o.Bytes))
	}
	return fmt.Sprintf("%s (%d bytes)", o.Name, len(o.Bytes))
}

// splitOff decomposes an offset term into base + k (base nil: constant).
func splitOff(t *Term) (*Term, uint64) {
	if t.IsConst() {
		return nil, t.V
	}
	if t.Op == OpAdd && t.A[1].IsConst() {
		return t.A[0], t.A[1].V
	}
	return t, 0
}

// lenImplied reports whether base+k <= Len is known on this path without asking the solver.
func (o *LLObj) lenImplied(base *Term, k uint64) bool {
	if k >= 1<<31 {
		return false
	}
	for _, f := range o.lenFacts {
		if f.base == base && f.k >= k {
			return true
		}
	}
	return false
}

// addLenFact records base+k <= Len. base must be small (range below 2^40) so that base+k cannot wrap.
func (o *LLObj) addLenFact(base *Term, k uint64) {
	if k >= 1<<31 {
		return
	}
	if base != nil {
		if _, hi, _, ok := termRange(base, 0); !ok || hi >= 1<<40 {
			return
		}
	}
	for i, f := range o.lenFacts {
		if f.base == base {
			if k > f.k {
				o.lenFacts[i].k = k
			}
			return
		}
	}
	o.lenFacts = append(o.lenFacts, llLenFact{base, k})
}

// access performs the bounds obligation for n bytes at p.
func (r *llRun) access(p LLVal, n int, write bool) llAcc {
	in, tc := r.in, r.in.tc
	rw := "read"
	if write {
		rw = "write"
	}
	if p.Agg != nil || p.T == nil {
		r.fail("internal: aggregate used as pointer")
	}
	off := p.T
	if off.W != 64 {
		off = tc.ZExt(off, 64)
	}
	if p.Obj == nil {
		if off.IsConst() && off.V < 4096 {
			r.violation("null", fmt.Sprintf("NULL pointer dereference (%s of %d bytes at address %d)", rw, n, off.V))
		}
		r.violation("null", fmt.Sprintf("%s of %d bytes through a value that is not derived from any object", rw, n))
	}
	o := p.Obj
	if write && o.ReadOnly {
		r.violation("oob", fmt.Sprintf("write of %d bytes to read-only object %s", n, o.describe()))
	}
	if !off.IsConst() {
		off = in.simp(off)
	}
	limit := len(o.Bytes)
	symLen := o.Len != nil && !o.Len.IsConst()
	if o.Len != nil && o.Len.IsConst() && int(o.Len.V) < limit {
		limit = int(o.Len.V)
	}
	if off.IsConst() {
		v := int64(off.V)
		if v < 0 || v+int64(n) > int64(limit) {
			r.violation("oob", fmt.Sprintf("out-of-bounds %s of %d bytes at offset %d of object %s", rw, n, v, o.describe()))
		}
		if symLen && !o.lenImplied(nil, uint64(v)+uint64(n)) {
			if r.guard != nil {
				panic(llSpecAbort{"bounds obligation under guard"})
			}
			ok := tc.Cmp(OpULe, r.k(uint64(v)+uint64(n), 64), o.Len)
			if !in.decide(ok) {
				r.violation("oob", fmt.Sprintf("out-of-bounds %s of %d bytes at offset %d of object %s: beyond its length", rw, n, v, o.describe()))
			}
			o.addLenFact(nil, uint64(v)+uint64(n))
		}
		return llAcc{obj: o, off: int(v)}
	}
	lo, hi, stride, known := termRange(off, 0)
	var sizeT *Term
	if symLen {
		sizeT = o.Len
	} else {
		sizeT = r.k(uint64(limit), 64)
	}
	var ok *Term
	end := tc.Bin(OpAdd, off, r.k(uint64(n), 64))
	base, bk := splitOff(off)
	switch {
	case known && hi < 1<<40 && !symLen && hi+uint64(n) <= uint64(limit):
		ok = tTrue
	case known && hi < 1<<40 && symLen && o.lenImplied(base, bk+uint64(n)):
		ok = tTrue
	case known && hi < 1<<40:
		ok = tc.Cmp(OpULe, end, sizeT)
	default:
		ok = tc.And(tc.Cmp(OpULe, off, sizeT), tc.Cmp(OpULe, end, sizeT))
	}
	if !ok.IsTrue() {
		if r.guard != nil {
			panic(llSpecAbort{"bounds obligation under guard"})
		}
		if !in.decide(ok) {
			r.violation("oob", fmt.Sprintf("out-of-bounds %s of %d bytes at symbolic offset of object %s", rw, n, o.describe()))
		}
		if symLen && known && hi < 1<<40 {
			o.addLenFact(base, bk+uint64(n))
		}
	}
	if !known {
		lo, hi, stride = 0, uint64(limit), 1
	}
	maxOff := limit - n
	var cands []int
	for v := lo; v <= hi && int64(v) <= int64(maxOff); v += stride {
		cands = append(cands, int(v))
		if stride == 0 || len(cands) > 4096 {
			break
		}
	}
	if len(cands) == 0 {
		panic(pathEnd{EndInfeasible, "no in-bounds candidate offset"})
	}
	if len(cands) > 4096 {
		r.fail("symbolic offset with more than 4096 candidate positions in %s", o.describe())
	}
	if symLen {
		o.addLenFact(nil, uint64(cands[0]+n))
	}
	if len(cands) == 1 {
		return llAcc{obj: o, off: cands[0]}
	}
	return llAcc{obj: o, sym: off, cands: cands}
}

func (r *llRun) concatBytes(o *LLObj, off, n int) *Term {
	t := r.byteAt(o, off+n-1)
	for j := n - 2; j >= 0; j-- {
		t = r.in.tc.Concat(t, r.byteAt(o, off+j))
	}
	return t
}

func (r *llRun) slotsOverlap(o *LLObj, off, n int) bool {
	for k, s := range o.ptrAt {
		if k < off+n && off < k+s.size {
			return true
		}
	}
	return false
}

func (r *llRun) clearSlots(o *LLObj, off, n int) {
	for k, s := range o.ptrAt {
		if k < off+n && off < k+s.size {
			delete(o.ptrAt, k)
		}
	}
}

func (r *llRun) load(p LLVal, t *LLType) LLVal {
	if t.Kind != LLInt && t.Kind != LLPtrT {
		r.fail("load of non-scalar type %s", t)
	}
	n := t.storeBytes()
	if n > 8 {
		r.fail("load of %d-byte scalar", n)
	}
	tc := r.in.tc
	a := r.access(p, n, false)
	var v LLVal
	if a.sym == nil {
		if s, ok := a.obj.ptrAt[a.off]; ok && s.size == n {
			v = LLVal{T: s.off, Obj: s.obj}
		} else {
			v.T = r.concatBytes(a.obj, a.off, n)
		}
	} else {
		for i := len(a.cands) - 1; i >= 0; i-- {
			c := a.cands[i]
			w := r.concatBytes(a.obj, c, n)
			if v.T == nil {
				v.T = w
			} else {
				v.T = tc.Ite(tc.Eq(a.sym, r.k(uint64(c), 64)), w, v.T)
			}
		}
	}
	if t.Kind == LLInt && t.Bits < n*8 {
		if v.Obj != nil {
			r.fail("narrow load of a stored pointer")
		}
		v.T = tc.Trunc(v.T, t.Bits)
	}
	return v
}

func (r *llRun) store(p LLVal, v LLVal, t *LLType) {
	if t.Kind != LLInt && t.Kind != LLPtrT {
		r.fail("store of non-scalar type %s", t)
	}
	n := t.storeBytes()
	if n > 8 {
		r.fail("store of %d-byte scalar", n)
	}
	tc := r.in.tc
	a := r.access(p, n, true)
	val := v.T
	if val.W < n*8 {
		val = tc.ZExt(val, n*8)
	}
	o := a.obj
	if v.Obj != nil {
		if r.guard != nil {
			panic(llSpecAbort{"pointer store under guard"})
		}
		if a.sym != nil {
			r.fail("store of a pointer at a symbolic offset")
		}
		r.clearSlots(o, a.off, n)
		for j := 0; j < n; j++ {
			o.Bytes[a.off+j] = llPtrByte
		}
		if o.ptrAt == nil {
			o.ptrAt = map[int]llPtrSlot{}
		}
		o.ptrAt[a.off] = llPtrSlot{obj: v.Obj, off: val, size: n}
		return
	}
	bytes := make([]*Term, n)
	for j := range bytes {
		bytes[j] = tc.Extract(val, 8*j+7, 8*j)
	}
	r.writeAcc(a, bytes)
}

// writeAcc writes integer bytes at an access.
func (r *llRun) writeAcc(a llAcc, bytes []*Term) {
	tc := r.in.tc
	o := a.obj
	n := len(bytes)
	if r.guard != nil {
		// speculative side block: conditional write, logged for undo
		if r.specPure && !(r.specStack && o.stack) {
			panic(llSpecAbort{"store under guard"})
		}
		if a.sym != nil {
			panic(llSpecAbort{"symbolic-offset store under guard"})
		}
		if r.slotsOverlap(o, a.off, n) {
			panic(llSpecAbort{"store over a stored pointer under guard"})
		}
		for j := 0; j < n; j++ {
			raw := o.Bytes[a.off+j]
			old := r.byteAt(o, a.off+j)
			r.undo = append(r.undo, llUndo{o, a.off + j, raw})
			o.Bytes[a.off+j] = tc.Ite(r.guard, bytes[j], old)
		}
		return
	}
	if a.sym == nil {
		r.clearSlots(o, a.off, n)
		copy(o.Bytes[a.off:], bytes)
		return
	}
	for _, c := range a.cands {
		if r.slotsOverlap(o, c, n) {
			r.fail("store at a symbolic offset may overwrite a stored pointer in %s", o.Name)
		}
	}
	// per byte position: which candidates cover it
	for _, c := range a.cands {
		cond := tc.Eq(a.sym, r.k(uint64(c), 64))
		for j := 0; j < n; j++ {
			old := o.Bytes[c+j]
			if old == nil || old == llPtrByte {
				old = r.byteAt(o, c+j)
			}
			o.Bytes[c+j] = tc.Ite(cond, bytes[j], old)
		}
	}
}

// readAcc reads n integer bytes at an access.
func (r *llRun) readAcc(a llAcc, n int) []*Term {
	tc := r.in.tc
	out := make([]*Term, n)
	if a.sym == nil {
		for j := range out {
			out[j] = r.byteAt(a.obj, a.off+j)
		}
		return out
	}
	for j := range out {
		var v *Term
		for i := len(a.cands) - 1; i >= 0; i-- {
			c := a.cands[i]
			b := r.byteAt(a.obj, c+j)
			if v == nil {
				v = b
			} else {
				v = tc.Ite(tc.Eq(a.sym, r.k(uint64(c), 64)), b, v)
			}
		}
		out[j] = v
	}
	return out
}

func (r *llRun) readBytes(p LLVal, n int) []*Term {
	if n == 0 {
		return nil
	}
	return r.readAcc(r.access(p, n, false), n)
}

func (r *llRun) writeBytes(p LLVal, bytes []*Term) {
	if len(bytes) == 0 {
		return
	}
	r.writeAcc(r.access(p, len(bytes), true), bytes)
}

func (r *llRun) memcpy(dst, src LLVal, n int) {
	if n == 0 {
		return
	}
	sa := r.access(src, n, false)
	da := r.access(dst, n, true)
	if sa.sym != nil || da.sym != nil {
		r.writeAcc(da, r.readAcc(sa, n))
		return
	}
	tmp := make([]*Term, n)
	for j := range tmp {
		b := sa.obj.Bytes[sa.off+j]
		if b == nil {
			b = r.byteAt(sa.obj, sa.off+j)
		}
		tmp[j] = b
	}
	type moved struct {
		rel int
		s   llPtrSlot
	}
	var slots []moved
	for k, s := range sa.obj.ptrAt {
		if k >= sa.off && k+s.size <= sa.off+n {
			slots = append(slots, moved{k - sa.off, s})
		}
	}
	r.clearSlots(da.obj, da.off, n)
	copy(da.obj.Bytes[da.off:], tmp)
	for _, m := range slots {
		if da.obj.ptrAt == nil {
			da.obj.ptrAt = map[int]llPtrSlot{}
		}
		da.obj.ptrAt[da.off+m.rel] = m.s
	}
}

func (r *llRun) memset(dst LLVal, b *Term, n int) {
	if n == 0 {
		return
	}
	bytes := make([]*Term, n)
	for i := range bytes {
		bytes[i] = b
	}
	r.writeBytes(dst, bytes)
}

// ---- globals ----

func (r *llRun) globalObj(name string) *LLObj {
	if o, ok := r.globals[name]; ok {
		return o
	}
	g := r.mod.Globals[name]
	if g == nil {
		if _, isFn := r.mod.Funcs[name]; isFn {
			r.fail("address of function @%s taken", name)
		}
		r.fail("unknown global @%s", name)
	}
	var o *LLObj
	func() {
		defer func() {
			if rec := recover(); rec != nil {
				if e, ok := rec.(llErr); ok {
					r.fail("global @%s: %s", name, e.msg)
				}
				panic(rec)
			}
		}()
		o = r.zeroObj("@"+name, g.Type.Size())
	}()
	r.globals[name] = o
	if g.Section == ".maps" {
		m := r.env.Maps[name]
		if m == nil {
			r.fail("no LLMap for map %s in the environment", name)
		}
		o.Map = m
		o.ReadOnly = true
		return o
	}
	if g.External || g.Init == nil {
		r.fail("external global @%s has no definition", name)
	}
	r.initBytes(o, 0, g.Init, g.Type)
	o.ReadOnly = g.Const
	return o
}

func (r *llRun) initBytes(o *LLObj, base int, c *LLOperand, t *LLType) {
	switch c.Kind {
	case opZero, opNull, opUndef:
	case opInt:
		n := t.storeBytes()
		for j := 0; j < n; j++ {
			o.Bytes[base+j] = r.k(c.Int>>(8*uint(j)), 8)
		}
	case opString:
		for j, b := range c.Str {
			o.Bytes[base+j] = r.k(uint64(b), 8)
		}
	case opArray:
		es := t.Elem.Size()
		for i, e := range c.Elems {
			r.initBytes(o, base+i*es, e, t.Elem)
		}
	case opStruct:
		for i, e := range c.Elems {
			r.initBytes(o, base+t.FieldOffset(i), e, t.Fields[i])
		}
	case opGlobal, opGEP, opCast:
		v := r.evalConst(c)
		if v.Obj == nil {
			n := t.storeBytes()
			for j := 0; j < n; j++ {
				o.Bytes[base+j] = r.in.tc.Extract(v.T, 8*j+7, 8*j)
			}
			return
		}
		if o.ptrAt == nil {
			o.ptrAt = map[int]llPtrSlot{}
		}
		for j := 0; j < 8; j++ {
			o.Bytes[base+j] = llPtrByte
		}
		o.ptrAt[base] = llPtrSlot{obj: v.Obj, off: v.T, size: 8}
	default:
		r.fail("initialiser kind %d", c.Kind)
	}
}

// ---- operand evaluation ----

func (r *llRun) zeroOf(t *LLType) LLVal {
	switch t.Kind {
	case LLInt:
		if t.Bits > 64 {
			r.fail("integer type i%d", t.Bits)
		}
		return LLVal{T: r.k(0, t.Bits)}
	case LLPtrT:
		return LLVal{T: r.k(0, 64)}
	case LLStruct:
		v := LLVal{Agg: make([]LLVal, len(t.Fields))}
		for i, f := range t.Fields {
			v.Agg[i] = r.zeroOf(f)
		}
		return v
	case LLArray:
		v := LLVal{Agg: make([]LLVal, t.N)}
		for i := range v.Agg {
			v.Agg[i] = r.zeroOf(t.Elem)
		}
		return v
	}
	r.fail("zero value of type %s", t)
	return LLVal{}
}

func (r *llRun) evalConst(o *LLOperand) LLVal { return r.eval(nil, o) }

func (r *llRun) eval(fr *llFrame, o *LLOperand) LLVal {
	switch o.Kind {
	case opLocal:
		if fr == nil {
			r.fail("register %%%s in constant context", o.Name)
		}
		v := fr.regs[o.Slot]
		if v.T == nil && v.Agg == nil {
			r.fail("use of register %%%s before definition", o.Name)
		}
		return v
	case opInt:
		return LLVal{T: r.k(o.Int, o.Type.Bits)}
	case opNull:
		return LLVal{T: r.k(0, 64)}
	case opUndef, opZero:
		// undef: any value is allowed; zero is chosen
		return r.zeroOf(o.Type)
	case opGlobal:
		return LLVal{T: r.k(0, 64), Obj: r.globalObj(o.Name)}
	case opGEP:
		base := r.eval(fr, o.Elems[0])
		idx := make([]LLVal, len(o.Elems)-1)
		for i, e := range o.Elems[1:] {
			idx[i] = r.eval(fr, e)
		}
		return r.gep(base, o.SrcElem, idx)
	case opCast:
		return r.cast(o.Op, r.eval(fr, o.Elems[0]), o.Elems[0].Type, o.Type)
	case opArray, opStruct:
		v := LLVal{Agg: make([]LLVal, len(o.Elems))}
		for i, e := range o.Elems {
			v.Agg[i] = r.eval(fr, e)
		}
		return v
	}
	r.fail("operand kind %d", o.Kind)
	return LLVal{}
}

func (r *llRun) gep(base LLVal, src *LLType, idx []LLVal) (res LLVal) {
	defer func() {
		if rec := recover(); rec != nil {
			if e, ok := rec.(llErr); ok {
				r.fail("getelementptr: %s", e.msg)
			}
			panic(rec)
		}
	}()
	tc := r.in.tc
	off := base.T
	if off.W != 64 {
		r.fail("getelementptr on a %d-bit base", off.W)
	}
	t := src
	for i, ix := range idx {
		if ix.Obj != nil || ix.T == nil {
			r.fail("getelementptr index is not a plain integer")
		}
		it := tc.SExt(ix.T, 64)
		scale := func(sz int) {
			off = tc.Bin(OpAdd, off, tc.Bin(OpMul, it, r.k(uint64(sz), 64)))
		}
		if i == 0 {
			scale(t.Size())
			continue
		}
		switch t.Kind {
		case LLStruct:
			if !it.IsConst() || int(it.V) >= len(t.Fields) {
				r.fail("getelementptr: non-constant or bad struct index")
			}
			off = tc.Bin(OpAdd, off, r.k(uint64(t.FieldOffset(int(it.V))), 64))
			t = t.Fields[it.V]
		case LLArray:
			t = t.Elem
			scale(t.Size())
		default:
			r.fail("getelementptr into type %s", t)
		}
	}
	return LLVal{T: off, Obj: base.Obj}
}

func (r *llRun) cast(op string, v LLVal, from, to *LLType) LLVal {
	tc := r.in.tc
	if v.Agg != nil {
		r.fail("%s of aggregate", op)
	}
	width := func(t *LLType) int {
		switch t.Kind {
		case LLInt:
			if t.Bits > 64 {
				r.fail("integer type i%d", t.Bits)
			}
			return t.Bits
		case LLPtrT:
			return 64
		}
		r.fail("%s involving type %s", op, t)
		return 0
	}
	tw := width(to)
	switch op {
	case "bitcast":
		if width(from) != tw {
			r.fail("bitcast between different widths")
		}
		return v
	case "inttoptr", "zext":
		if v.T.W > tw {
			if op == "zext" {
				r.fail("zext to a narrower type")
			}
			return r.cast("trunc", v, from, to)
		}
		if v.Obj != nil && tw == 64 && v.T.Op == OpExtract && v.T.V == 0 && v.T.Hi == 31 && v.T.A[0] == v.Obj.Len {
			// the 32-bit data_end field of the context: object lengths are far below 2^32
			return LLVal{T: v.Obj.Len, Obj: v.Obj}
		}
		return LLVal{T: tc.ZExt(v.T, tw), Obj: v.Obj}
	case "ptrtoint", "trunc":
		if v.T.W < tw {
			return LLVal{T: tc.ZExt(v.T, tw), Obj: v.Obj}
		}
		if v.T.W == tw {
			return v
		}
		if v.Obj != nil && tw < 32 {
			r.fail("truncation of a pointer value to %d bits", tw)
		}
		return LLVal{T: tc.Trunc(v.T, tw), Obj: v.Obj}
	case "sext":
		if v.Obj != nil {
			r.fail("sign extension of a pointer-derived value")
		}
		return LLVal{T: tc.SExt(v.T, tw)}
	}
	r.fail("cast %s", op)
	return LLVal{}
}

var llBinOpMap = map[string]Op{"add": OpAdd, "sub": OpSub, "mul": OpMul, "udiv": OpUDiv, "sdiv": OpSDiv, "urem": OpURem, "srem": OpSRem,
	"shl": OpShl, "lshr": OpLShr, "ashr": OpAShr, "and": OpBAnd, "or": OpBOr, "xor": OpBXor}

func (r *llRun) binop(op string, a, b LLVal) LLVal {
	tc := r.in.tc
	if a.Agg != nil || b.Agg != nil {
		r.fail("%s on aggregates", op)
	}
	if a.Obj != nil || b.Obj != nil {
		switch {
		case op == "add" && b.Obj == nil:
			return LLVal{T: tc.Bin(OpAdd, a.T, b.T), Obj: a.Obj}
		case op == "add" && a.Obj == nil:
			return LLVal{T: tc.Bin(OpAdd, a.T, b.T), Obj: b.Obj}
		case op == "sub" && b.Obj == nil:
			return LLVal{T: tc.Bin(OpSub, a.T, b.T), Obj: a.Obj}
		case op == "sub" && a.Obj == b.Obj:
			return LLVal{T: tc.Bin(OpSub, a.T, b.T)}
		case op == "and" && b.Obj == nil && b.T.IsConst() && b.T.V&0xffffffff == 0xffffffff:
			// masking a pointer to (at least) its low 32 bits: addresses of ctx->data style values fit in 32 bits
			return LLVal{T: tc.Bin(OpBAnd, a.T, b.T), Obj: a.Obj}
		}
		r.fail("arithmetic %s on pointer-derived values is not modelled", op)
	}
	x, y := a.T, b.T
	if x.W == 1 {
		bx, by := r.toBool(x), r.toBool(y)
		switch op {
		case "and", "mul":
			return LLVal{T: r.fromBool(tc.And(bx, by))}
		case "or":
			return LLVal{T: r.fromBool(tc.Or(bx, by))}
		case "xor", "add", "sub":
			return LLVal{T: r.fromBool(tc.Not(tc.Eq(bx, by)))}
		}
	}
	o, ok := llBinOpMap[op]
	if !ok {
		r.fail("binary operator %s", op)
	}
	switch op {
	case "udiv", "sdiv":
		// eBPF semantics: division by zero yields 0
		if !y.IsConst() || y.V == 0 {
			return LLVal{T: tc.Ite(tc.Eq(y, r.k(0, y.W)), r.k(0, x.W), tc.Bin(o, x, y))}
		}
	case "urem", "srem":
		// eBPF semantics: modulo by zero leaves the dividend
		if !y.IsConst() || y.V == 0 {
			return LLVal{T: tc.Ite(tc.Eq(y, r.k(0, y.W)), x, tc.Bin(o, x, y))}
		}
	}
	return LLVal{T: tc.Bin(o, x, y)}
}

// icmp returns a Bool term.
func (r *llRun) icmp(pred string, a, b LLVal) *Term {
	tc := r.in.tc
	if a.Agg != nil || b.Agg != nil {
		r.fail("icmp on aggregates")
	}
	cmp := func(pred string, x, y *Term) *Term {
		switch pred {
		case "eq":
			return tc.Eq(x, y)
		case "ne":
			return tc.Not(tc.Eq(x, y))
		case "ult":
			return tc.Cmp(OpULt, x, y)
		case "ule":
			return tc.Cmp(OpULe, x, y)
		case "ugt":
			return tc.Cmp(OpULt, y, x)
		case "uge":
			return tc.Cmp(OpULe, y, x)
		case "slt":
			return tc.Cmp(OpSLt, x, y)
		case "sle":
			return tc.Cmp(OpSLe, x, y)
		case "sgt":
			return tc.Cmp(OpSLt, y, x)
		case "sge":
			return tc.Cmp(OpSLe, y, x)
		}
		r.fail("icmp predicate %q", pred)
		return nil
	}
	switch {
	case a.Obj == nil && b.Obj == nil:
		return cmp(pred, a.T, b.T)
	case a.Obj == b.Obj:
		// same object: the order of addresses is the signed order of offsets
		switch pred {
		case "ult", "ule", "ugt", "uge":
			pred = "s" + pred[1:]
		}
		res := cmp(pred, a.T, b.T)
		if o := a.Obj; o.Len != nil && !o.Len.IsConst() && !res.IsConst() && a.T.W == 64 {
			var info *llLenCmp
			switch {
			case b.T == o.Len: // x pred Len
				switch pred {
				case "sle":
					info = &llLenCmp{o, a.T, false, false}
				case "slt":
					info = &llLenCmp{o, a.T, true, false}
				case "sgt":
					info = &llLenCmp{o, a.T, false, true}
				case "sge":
					info = &llLenCmp{o, a.T, true, true}
				}
			case a.T == o.Len: // Len pred x
				switch pred {
				case "sle":
					info = &llLenCmp{o, b.T, true, true}
				case "slt":
					info = &llLenCmp{o, b.T, false, true}
				case "sgt":
					info = &llLenCmp{o, b.T, true, false}
				case "sge":
					info = &llLenCmp{o, b.T, false, false}
				}
			}
			if info != nil {
				if r.lenCmps == nil {
					r.lenCmps = map[*Term]llLenCmp{}
				}
				r.lenCmps[res] = *info
			}
		}
		return res
	case a.Obj != nil && b.Obj != nil:
		switch pred {
		case "eq":
			return tFalse
		case "ne":
			return tTrue
		}
		r.fail("ordering comparison of pointers into different objects (%s, %s)", a.Obj.Name, b.Obj.Name)
	}
	// object pointer against a plain integer: only NULL is meaningful
	objLeft := a.Obj != nil
	other := b
	if !objLeft {
		other = a
	}
	if !(other.T.IsConst() && other.T.V == 0) {
		r.fail("comparison of a pointer with a non-zero integer")
	}
	switch pred {
	case "eq":
		return tFalse
	case "ne":
		return tTrue
	case "ugt", "sgt":
		return tc.Bool(objLeft)
	case "uge", "sge":
		return tc.Bool(objLeft)
	case "ult", "slt":
		return tc.Bool(!objLeft)
	case "ule", "sle":
		return tc.Bool(!objLeft)
	}
	r.fail("icmp predicate %q", pred)
	return nil
}

func (r *llRun) selectVal(fr *llFrame, ins *LLInstr, c *Term, a, b LLVal) LLVal {
	tc := r.in.tc
	if c.IsConst() {
		if c.V == 1 {
			return a
		}
		return b
	}
	if a.Agg == nil && b.Agg == nil && a.Obj == b.Obj && a.T.W == b.T.W {
		return LLVal{T: tc.Ite(c, a.T, b.T), Obj: a.Obj}
	}
	// different provenance: fork
	if r.guard != nil {
		panic(llSpecAbort{"select needs a fork under guard"})
	}
	r.countSym(fr, ins)
	if r.in.decide(c) {
		return a
	}
	return b
}

func (r *llRun) countSym(fr *llFrame, ins *LLInstr) {
	if fr.symBr == nil {
		fr.symBr = map[*LLInstr]int{}
	}
	fr.symBr[ins]++
	if fr.symBr[ins] > r.in.cfg.Unwind {
		panic(pathEnd{EndUnwind, fmt.Sprintf("unwind bound %d exceeded at %s", r.in.cfg.Unwind, r.where())})
	}
}

// ---- execution ----

func (r *llRun) callFunc(f *LLFunc, args []LLVal) LLVal {
	if f.Decl || len(f.Blocks) == 0 {
		r.fail("call of undefined function @%s", f.Name)
	}
	if len(args) != len(f.Params) {
		r.fail("call of @%s with %d arguments, expected %d", f.Name, len(args), len(f.Params))
	}
	r.depth++
	defer func() { r.depth-- }()
	if r.depth > 64 {
		panic(pathEnd{EndSteps, "llir: call depth 64 exceeded (recursion?) in @" + f.Name})
	}
	fr := &llFrame{fn: f, regs: make([]LLVal, f.NSlots)}
	for i, p := range f.Params {
		fr.regs[p.Slot] = args[i]
	}
	saveCur := r.cur
	defer func() { r.cur = saveCur }()
	in := r.in
	var prev *LLBlock
	blk := f.Blocks[0]
	skipPhis := false
	for {
		if r.env.Cover != nil {
			r.env.Cover[f.Name+":"+blk.Name] = true
		}
		// phis read their inputs simultaneously
		nphi := 0
		for nphi < len(blk.Instrs) && blk.Instrs[nphi].Op == "phi" {
			nphi++
		}
		if nphi > 0 && !skipPhis {
			tmp := make([]LLVal, nphi)
			for i := 0; i < nphi; i++ {
				ins := blk.Instrs[i]
				r.cur = ins
				tmp[i] = r.phiIncoming(fr, ins, prev)
			}
			for i := 0; i < nphi; i++ {
				fr.regs[blk.Instrs[i].ResSlot] = tmp[i]
			}
		}
		skipPhis = false
		var next *LLBlock
		for _, ins := range blk.Instrs[nphi:] {
			r.cur = ins
			r.steps++
			in.path.steps++
			in.instrs++
			if in.path.steps > in.cfg.MaxSteps {
				panic(pathEnd{EndSteps, "step limit exceeded in bpf function " + f.Name})
			}
			nb, ret, isRet, merged := r.exec(fr, ins)
			if isRet {
				return ret
			}
			if nb != nil {
				next, skipPhis = nb, merged
				break
			}
		}
		if next == nil {
			r.fail("internal: block %s fell through", blk.Name)
		}
		prev, blk = blk, next
	}
}

func (r *llRun) phiIncoming(fr *llFrame, ins *LLInstr, from *LLBlock) LLVal {
	for j, pb := range ins.Blocks {
		if pb == from {
			return r.eval(fr, ins.Ops[j])
		}
	}
	r.fail("phi has no incoming value for predecessor")
	return LLVal{}
}

// trySpec executes the side block(s) below a conditional branch under a guard and merges at the join block
// (if-conversion). It returns false, with all effects undone, when that is not possible; the caller then forks.
func (r *llRun) trySpec(fr *llFrame, br *LLInstr, c *Term) (ok bool) {
	sp := br.Spec
	tc := r.in.tc
	saveUndo := r.undo
	r.undo = nil
	saveCur := r.cur
	defer func() {
		r.guard = nil
		r.cur = saveCur
		if rec := recover(); rec != nil {
			if _, isAbort := rec.(llSpecAbort); !isAbort {
				panic(rec)
			}
			ok = false
		}
		if !ok {
			for i := len(r.undo) - 1; i >= 0; i-- {
				u := r.undo[i]
				u.obj.Bytes[u.idx] = u.old
			}
		}
		r.undo = saveUndo
	}()
	run := func(b *LLBlock, g *Term) {
		if b == nil {
			return
		}
		r.guard = g
		for _, ins := range b.Instrs[:len(b.Instrs)-1] {
			if ins.Op == "phi" {
				panic(llSpecAbort{"phi in side block"})
			}
			r.cur = ins
			r.steps++
			r.in.path.steps++
			r.in.instrs++
			if nb, _, isRet, _ := r.exec(fr, ins); nb != nil || isRet {
				panic(llSpecAbort{"control flow in side block"})
			}
		}
		r.guard = nil
	}
	run(sp.SideT, c)
	run(sp.SideF, tc.Not(c))
	// merge the join's phis
	fromT, fromF := sp.SideT, sp.SideF
	if fromT == nil {
		fromT = br.Block
	}
	if fromF == nil {
		fromF = br.Block
	}
	r.guard = tTrue // evaluation of phi operands must not fork or fail either
	var vals []LLVal
	var slots []int
	for _, ins := range sp.Join.Instrs {
		if ins.Op != "phi" {
			break
		}
		r.cur = ins
		vt, vf := r.phiIncoming(fr, ins, fromT), r.phiIncoming(fr, ins, fromF)
		if vt.Agg != nil || vf.Agg != nil || vt.Obj != vf.Obj || vt.T.W != vf.T.W {
			panic(llSpecAbort{"phi of values with different provenance"})
		}
		vals = append(vals, LLVal{T: tc.Ite(c, vt.T, vf.T), Obj: vt.Obj})
		slots = append(slots, ins.ResSlot)
	}
	r.guard = nil
	for i, sl := range slots {
		fr.regs[sl] = vals[i]
	}
	if r.env.Cover != nil {
		for _, b := range []*LLBlock{sp.SideT, sp.SideF} {
			if b != nil {
				r.env.Cover[fr.fn.Name+":"+b.Name] = true
			}
		}
	}
	r.nSpec++
	return true
}

// exec executes one non-phi instruction. next != nil: control transfers to that block (merged: its phis have already
// been assigned by if-conversion).
func (r *llRun) exec(fr *llFrame, ins *LLInstr) (next *LLBlock, ret LLVal, isRet bool, merged bool) {
	in, tc := r.in, r.in.tc
	f := fr.fn
	set := func(v LLVal) {
		if ins.ResSlot >= 0 {
			fr.regs[ins.ResSlot] = v
		}
	}
	switch ins.Op {
	case "alloca":
		n := 1
		if len(ins.Ops) == 1 {
			c := r.eval(fr, ins.Ops[0])
			n = int(in.concretize(c.T, "alloca count"))
		}
		name := f.Name + ".%" + ins.Res
		o := r.newObj(name, ins.Ty2.Size()*n, "uninit."+name)
		o.stack = true
		set(LLVal{T: r.k(0, 64), Obj: o})
	case "load":
		set(r.load(r.eval(fr, ins.Ops[0]), ins.Type))
	case "store":
		r.store(r.eval(fr, ins.Ops[1]), r.eval(fr, ins.Ops[0]), ins.Type)
	case "getelementptr":
		idx := make([]LLVal, len(ins.Ops)-1)
		for i, o := range ins.Ops[1:] {
			idx[i] = r.eval(fr, o)
		}
		set(r.gep(r.eval(fr, ins.Ops[0]), ins.Ty2, idx))
	case "bitcast", "inttoptr", "ptrtoint", "trunc", "zext", "sext":
		set(r.cast(ins.Op, r.eval(fr, ins.Ops[0]), ins.Ty2, ins.Type))
	case "icmp":
		set(LLVal{T: r.fromBool(r.icmp(ins.Pred, r.eval(fr, ins.Ops[0]), r.eval(fr, ins.Ops[1])))})
	case "select":
		c := r.eval(fr, ins.Ops[0])
		set(r.selectVal(fr, ins, r.toBool(c.T), r.eval(fr, ins.Ops[1]), r.eval(fr, ins.Ops[2])))
	case "br":
		if len(ins.Blocks) == 1 {
			return ins.Blocks[0], LLVal{}, false, false
		}
		c := r.toBool(r.eval(fr, ins.Ops[0]).T)
		if ins.Spec != nil && r.guard == nil && ((r.specMode == 1 && !c.IsConst()) || r.specMode == 2) {
			c2 := c
			if !c2.IsConst() {
				c2 = in.simp(c2)
			}
			if (r.specMode == 2 || !c2.IsConst()) && r.trySpec(fr, ins, c2) {
				return ins.Spec.Join, LLVal{}, false, true
			}
		}
		if !c.IsConst() {
			r.countSym(fr, ins)
		}
		taken := in.decide(c)
		if info, ok := r.lenCmps[c]; ok && taken != info.neg {
			// the program has established x <= Len (x < Len when strict)
			base, k := splitOff(info.x)
			if info.strict {
				k++
			}
			info.obj.addLenFact(base, k)
		}
		if taken {
			return ins.Blocks[0], LLVal{}, false, false
		}
		return ins.Blocks[1], LLVal{}, false, false
	case "switch":
		v := r.eval(fr, ins.Ops[0])
		if v.Obj != nil {
			r.fail("switch on a pointer-derived value")
		}
		next = ins.Blocks[0]
		if !v.T.IsConst() {
			r.countSym(fr, ins)
		}
		for i, cv := range ins.Cases {
			if in.decide(tc.Eq(v.T, r.k(cv, v.T.W))) {
				next = ins.Blocks[i+1]
				break
			}
		}
		return next, LLVal{}, false, false
	case "ret":
		if len(ins.Ops) == 1 {
			return nil, r.eval(fr, ins.Ops[0]), true, false
		}
		return nil, LLVal{}, true, false
	case "unreachable":
		r.violation("unreachable", "execution reached an 'unreachable' instruction")
	case "fence":
	case "call":
		args := make([]LLVal, len(ins.Ops))
		for i, o := range ins.Ops {
			if o.Type.Kind == LLMetaT {
				continue
			}
			args[i] = r.eval(fr, o)
		}
		set(r.call(ins, args))
		r.cur = ins
	case "atomicrmw":
		p := r.eval(fr, ins.Ops[0])
		v := r.eval(fr, ins.Ops[1])
		old := r.load(p, ins.Type)
		var nv LLVal
		switch ins.Pred {
		case "add", "sub", "and", "or", "xor":
			nv = r.binop(ins.Pred, old, v)
		case "xchg":
			nv = v
		case "max", "min", "umax", "umin":
			if old.Obj != nil || v.Obj != nil {
				r.fail("atomicrmw %s on pointers", ins.Pred)
			}
			o := map[string]Op{"max": OpSLt, "min": OpSLt, "umax": OpULt, "umin": OpULt}[ins.Pred]
			c := tc.Cmp(o, old.T, v.T)
			if strings.HasSuffix(ins.Pred, "max") {
				nv = LLVal{T: tc.Ite(c, v.T, old.T)}
			} else {
				nv = LLVal{T: tc.Ite(c, old.T, v.T)}
			}
		default:
			r.fail("atomicrmw operation %q", ins.Pred)
		}
		r.store(p, nv, ins.Type)
		set(old)
	case "cmpxchg":
		p := r.eval(fr, ins.Ops[0])
		cv := r.eval(fr, ins.Ops[1])
		nv := r.eval(fr, ins.Ops[2])
		old := r.load(p, ins.Ty2)
		eq := r.icmp("eq", old, cv)
		r.store(p, r.selectVal(fr, ins, eq, nv, old), ins.Ty2)
		set(LLVal{Agg: []LLVal{old, {T: r.fromBool(eq)}}})
	case "extractvalue":
		v := r.eval(fr, ins.Ops[0])
		for _, ix := range ins.Idx {
			if ix >= len(v.Agg) {
				r.fail("extractvalue index out of range")
			}
			v = v.Agg[ix]
		}
		set(v)
	case "insertvalue":
		set(r.insertValue(r.eval(fr, ins.Ops[0]), r.eval(fr, ins.Ops[1]), ins.Idx))
	default:
		if _, ok := llBinOpMap[ins.Op]; ok {
			set(r.binop(ins.Op, r.eval(fr, ins.Ops[0]), r.eval(fr, ins.Ops[1])))
		} else {
			r.fail("instruction %q", ins.Op)
		}
	}
	return nil, LLVal{}, false, false
}

func (r *llRun) insertValue(agg, v LLVal, idx []int) LLVal {
	if len(idx) == 0 {
		return v
	}
	if idx[0] >= len(agg.Agg) {
		r.fail("insertvalue index out of range")
	}
	out := LLVal{Agg: append([]LLVal(nil), agg.Agg...)}
	out.Agg[idx[0]] = r.insertValue(agg.Agg[idx[0]], v, idx[1:])
	return out
}

func (r *llRun) plainInt(v LLVal, what string) *Term {
	if v.Obj != nil || v.T == nil {
		r.fail("%s: plain integer expected", what)
	}
	return v.T
}

func (r *llRun) call(ins *LLInstr, a []LLVal) LLVal {
	in, tc := r.in, r.in.tc
	name := ins.Callee
	switch {
	case strings.HasPrefix(name, "llvm.lifetime."), strings.HasPrefix(name, "llvm.dbg."), name == "llvm.assume",
		strings.HasPrefix(name, "llvm.experimental.noalias.scope.decl"), strings.HasPrefix(name, "llvm.invariant."):
		return LLVal{}
	case strings.HasPrefix(name, "llvm.memset."):
		n := int(in.concretize(r.plainInt(a[2], "memset length"), "memset length"))
		r.memset(a[0], r.plainInt(a[1], "memset value"), n)
		return LLVal{}
	case strings.HasPrefix(name, "llvm.memcpy."), strings.HasPrefix(name, "llvm.memmove."):
		n := int(in.concretize(r.plainInt(a[2], "memcpy length"), "memcpy length"))
		r.memcpy(a[0], a[1], n)
		return LLVal{}
	case strings.HasPrefix(name, "llvm.bswap."):
		x := r.plainInt(a[0], "bswap")
		if x.W%16 != 0 {
			r.fail("bswap of i%d", x.W)
		}
		nb := x.W / 8
		var t *Term
		for j := 0; j < nb; j++ { // byte j (LSB first) becomes the most significant remaining
			b := tc.Extract(x, 8*j+7, 8*j)
			if t == nil {
				t = b
			} else {
				t = tc.Concat(t, b)
			}
		}
		return LLVal{T: t}
	case strings.HasPrefix(name, "llvm.umin."), strings.HasPrefix(name, "llvm.umax."), strings.HasPrefix(name, "llvm.smin."), strings.HasPrefix(name, "llvm.smax."):
		x, y := r.plainInt(a[0], name), r.plainInt(a[1], name)
		op := OpULt
		if name[5] == 's' {
			op = OpSLt
		}
		c := tc.Cmp(op, x, y)
		if strings.Contains(name[:9], "min") {
			return LLVal{T: tc.Ite(c, x, y)}
		}
		return LLVal{T: tc.Ite(c, y, x)}
	case strings.HasPrefix(name, "llvm.fshl."), strings.HasPrefix(name, "llvm.fshr."):
		x, y, s := r.plainInt(a[0], name), r.plainInt(a[1], name), r.plainInt(a[2], name)
		w := x.W
		if w > 32 {
			if !s.IsConst() {
				r.fail("%s with symbolic shift on i%d", name, w)
			}
			k := int(s.V % uint64(w))
			if k == 0 {
				if strings.HasPrefix(name, "llvm.fshl.") {
					return LLVal{T: x}
				}
				return LLVal{T: y}
			}
			if strings.HasPrefix(name, "llvm.fshr.") {
				k = w - k
			}
			return LLVal{T: tc.Bin(OpBOr, tc.Bin(OpShl, x, r.k(uint64(k), w)), tc.Bin(OpLShr, y, r.k(uint64(w-k), w)))}
		}
		cat := tc.Concat(x, y)
		sh := tc.ZExt(tc.Bin(OpURem, s, r.k(uint64(w), w)), 2*w)
		if strings.HasPrefix(name, "llvm.fshl.") {
			return LLVal{T: tc.Extract(tc.Bin(OpShl, cat, sh), 2*w-1, w)}
		}
		return LLVal{T: tc.Extract(tc.Bin(OpLShr, cat, sh), w-1, 0)}
	case strings.HasPrefix(name, "llvm.bpf.passthrough."):
		return a[1]
	case strings.HasPrefix(name, "llvm.expect."):
		return a[0]
	case strings.HasPrefix(name, "llvm."):
		r.fail("intrinsic @%s", name)
	case strings.HasPrefix(name, "bpf_"):
		if f := r.mod.Funcs[name]; f == nil || f.Decl {
			return r.helper(name, a, ins)
		}
	}
	f := r.mod.Funcs[name]
	if f == nil {
		r.fail("call of unknown function @%s", name)
	}
	return r.callFunc(f, a)
}

// ---- entry point ----

type BPFRun struct {
	Verdict *Term  // i32 return value
	Packet  *LLObj // after the run
	Env     *LLEnv
	Steps   int
	Merged  int // number of branches handled by if-conversion instead of forking
}

// offsets of the context fields used by the model (uapi linux/bpf.h); checked against the IR struct types
const (
	skbOffLen     = 0
	skbOffData    = 76
	skbOffDataEnd = 80
	skbSize       = 192
	xdpOffData    = 0
	xdpOffDataEnd = 4
	xdpOffMeta    = 8
	xdpSize       = 24
)

// NewSymbolicPacket makes a packet object of capacity maxLen with fresh bytes tag[i] and symbolic length tag.len <= maxLen.
func (in *Interp) NewSymbolicPacket(tag string, maxLen int) *LLObj {
	o := &LLObj{Name: tag, Bytes: make([]*Term, maxLen)}
	o.Len = in.fresh(tag+".len", 64)
	in.assume(in.tc.Cmp(OpULe, o.Len, in.tc.Const(uint64(maxLen), 64)))
	for i := range o.Bytes {
		o.Bytes[i] = in.fresh(fmt.Sprintf("%s[%d]", tag, i), 8)
	}
	return o
}

// NewConcretePacket makes a packet object holding data, with the given capacity (>= len(data), extra bytes zero).
func (in *Interp) NewConcretePacket(name string, data []byte, capacity int) *LLObj {
	if capacity < len(data) {
		capacity = len(data)
	}
	o := &LLObj{Name: name, Bytes: make([]*Term, capacity), Len: in.tc.Const(uint64(len(data)), 64)}
	for i := range o.Bytes {
		var b byte
		if i < len(data) {
			b = data[i]
		}
		o.Bytes[i] = in.tc.Const(uint64(b), 8)
	}
	return o
}

// BPFMaps returns fresh LLMap descriptions (no entries) for all maps defined by a program.
func (in *Interp) BPFMaps(prog string, onMiss string) map[string]*LLMap {
	mod, err := loadBPFModule(prog)
	if err != nil {
		panic(unsupported("llir: " + err.Error()))
	}
	ms := map[string]*LLMap{}
	for _, n := range mod.MapOrder {
		d := mod.Maps[n]
		ms[n] = &LLMap{Name: n, KeySize: d.KeySize, ValSize: d.ValSize, MaxEntries: d.MaxEntries, Type: d.Type, OnMiss: onMiss,
			PerCPU: d.Type == bpfMapPercpuArray || d.Type == bpfMapPercpuHash || d.Type == bpfMapLruPercpuHash}
	}
	return ms
}

// RunBPF executes one entry point of a program on env.Packet inside the current path. Every problem (build, parse,
// unsupported construct) surfaces as panic(unsupported("llir: ...")); the error result is always nil.
func (in *Interp) RunBPF(prog, entry string, kind string, env *LLEnv) (res *BPFRun, err error) {
	mod, lerr := loadBPFModule(prog)
	if lerr != nil {
		panic(unsupported("llir: " + lerr.Error()))
	}
	r := &llRun{in: in, mod: mod, env: env, kind: kind, globals: map[string]*LLObj{}, specMode: 1, specPure: true}
	mode := os.Getenv("VERIF_LLIR_SPEC")
	if env != nil && env.IfConversion != "" {
		mode = env.IfConversion
	}
	switch mode {
	case "pure":
	case "", "stack":
		r.specStack = true
	case "off":
		r.specMode = 0
	case "full":
		r.specPure = false
	case "force": // testing: also for concrete conditions
		r.specMode, r.specPure = 2, false
	default:
		panic(unsupported("llir: unknown if-conversion mode " + mode))
	}
	defer func() {
		if rec := recover(); rec != nil {
			if e, ok := rec.(llErr); ok {
				panic(unsupported("llir: " + e.msg + " at " + r.where()))
			}
			panic(rec)
		}
	}()
	if env == nil || env.Packet == nil {
		r.fail("RunBPF needs env.Packet")
	}
	f := mod.Funcs[entry]
	if f == nil || f.Decl {
		r.fail("no function %s in bpf/%s.c", entry, prog)
	}
	if len(f.Params) != 1 || f.Params[0].Type.Kind != LLPtrT {
		r.fail("entry point %s does not take a single context pointer", entry)
	}
	tc := in.tc
	pkt := env.Packet
	if pkt.Len == nil {
		pkt.Len = tc.Const(uint64(len(pkt.Bytes)), 64)
	}
	if pkt.Len.W != 64 {
		r.fail("packet length must be a 64-bit term")
	}
	in.assume(tc.Cmp(OpULe, pkt.Len, tc.Const(uint64(len(pkt.Bytes)), 64)))
	pkt.lenFacts = nil
	// maps: complete the environment from the definitions
	if env.Maps == nil {
		env.Maps = map[string]*LLMap{}
	}
	for _, n := range mod.MapOrder {
		d := mod.Maps[n]
		m := env.Maps[n]
		if m == nil {
			m = &LLMap{}
			env.Maps[n] = m
		}
		if m.Name == "" {
			m.Name = n
		}
		if m.KeySize == 0 {
			m.KeySize = d.KeySize
		}
		if m.ValSize == 0 {
			m.ValSize = d.ValSize
		}
		if m.MaxEntries == 0 {
			m.MaxEntries = d.MaxEntries
		}
		if m.Type == 0 {
			m.Type = d.Type
		}
		if m.KeySize != d.KeySize || m.ValSize != d.ValSize || m.Type != d.Type {
			r.fail("LLMap %s (type %d key %d value %d) does not match the program's definition (type %d key %d value %d)",
				n, m.Type, m.KeySize, m.ValSize, d.Type, d.KeySize, d.ValSize)
		}
		for i, e := range m.Entries {
			if len(e.Key) != m.KeySize || (!e.Deleted && (e.Val == nil || len(e.Val.Bytes) != m.ValSize)) {
				r.fail("LLMap %s entry %d has wrong key/value size", n, i)
			}
		}
	}
	// context object
	ctxT := f.Params[0].Type.Elem
	var ctx *LLObj
	slot32 := func(off int, t *Term) {
		for j := 0; j < 4; j++ {
			ctx.Bytes[off+j] = llPtrByte
		}
		ctx.ptrAt[off] = llPtrSlot{obj: pkt, off: t, size: 4}
	}
	switch kind {
	case "tc":
		if ctxT.Kind == LLStruct && !ctxT.Opaque {
			if ctxT.Size() != skbSize || ctxT.FieldOffset(15) != skbOffData || ctxT.FieldOffset(16) != skbOffDataEnd {
				r.fail("struct __sk_buff layout self-check failed (size %d, data at %d, data_end at %d)", ctxT.Size(), ctxT.FieldOffset(15), ctxT.FieldOffset(16))
			}
		}
		ctx = r.newObj("skb", skbSize, "skb")
		ctx.ptrAt = map[int]llPtrSlot{}
		slot32(skbOffData, tc.Const(0, 32))
		slot32(skbOffDataEnd, tc.Trunc(pkt.Len, 32))
		l := env.SkbLen
		if l == nil {
			l = tc.Trunc(pkt.Len, 32)
		}
		for j := 0; j < 4; j++ {
			ctx.Bytes[skbOffLen+j] = tc.Extract(l, 8*j+7, 8*j)
		}
	case "xdp":
		if ctxT.Kind == LLStruct && !ctxT.Opaque {
			if ctxT.Size() != xdpSize || ctxT.FieldOffset(1) != xdpOffDataEnd || ctxT.FieldOffset(2) != xdpOffMeta {
				r.fail("struct xdp_md layout self-check failed")
			}
		}
		ctx = r.newObj("xdp_md", xdpSize, "xdp_md")
		ctx.ptrAt = map[int]llPtrSlot{}
		slot32(xdpOffData, tc.Const(0, 32))
		slot32(xdpOffDataEnd, tc.Trunc(pkt.Len, 32))
		slot32(xdpOffMeta, tc.Const(0, 32))
	default:
		r.fail("context kind %q (want \"xdp\" or \"tc\")", kind)
	}
	r.ctx = ctx
	ret := r.callFunc(f, []LLVal{{T: tc.Const(0, 64), Obj: ctx}})
	if ret.T == nil || ret.Obj != nil {
		r.fail("entry point returned a non-integer value")
	}
	return &BPFRun{Verdict: ret.T, Packet: pkt, Env: env, Steps: r.steps, Merged: r.nSpec}, nil
}

// sortedMapNames is used by reports.
func sortedMapNames(ms map[string]*LLMap) []string {
	var ns []string
	for n := range ms {
		ns = append(ns, n)
	}
	sort.Strings(ns)
	return ns
}
