package main

// Hash-consed term DAG over Bool (W==0) and bit-vectors of width 1..64, with eager
// simplification, and an SMT-LIB2 printer that emits one define-fun per shared node.

import (
	"fmt"
	"math/bits"
	"strings"
)

type Op uint8

const (
	OpConst Op = iota
	OpVar
	OpNot
	OpAnd
	OpOr
	OpEq
	OpIte
	OpAdd
	OpSub
	OpMul
	OpUDiv
	OpSDiv
	OpURem
	OpSRem
	OpShl
	OpLShr
	OpAShr
	OpBAnd
	OpBOr
	OpBXor
	OpBNot
	OpNeg
	OpULt
	OpULe
	OpSLt
	OpSLe
	OpZExt
	OpSExt
	OpExtract
	OpConcat
	OpUF
)

var opNames = map[Op]string{
	OpNot: "not", OpAnd: "and", OpOr: "or", OpEq: "=", OpIte: "ite", OpAdd: "bvadd", OpSub: "bvsub",
	OpMul: "bvmul", OpUDiv: "bvudiv", OpSDiv: "bvsdiv", OpURem: "bvurem", OpSRem: "bvsrem", OpShl: "bvshl",
	OpLShr: "bvlshr", OpAShr: "bvashr", OpBAnd: "bvand", OpBOr: "bvor", OpBXor: "bvxor", OpBNot: "bvnot",
	OpNeg: "bvneg", OpULt: "bvult", OpULe: "bvule", OpSLt: "bvslt", OpSLe: "bvsle", OpConcat: "concat",
}

// Term is immutable once built.
type Term struct {
	Op   Op
	W    int // 0 = Bool
	A    []*Term
	V    uint64 // const value (masked) / extract lo in V, hi in Hi
	Hi   int
	Name string // var / UF name
	ID   int
}

func (t *Term) IsConst() bool { return t.Op == OpConst }
func (t *Term) IsTrue() bool  { return t.Op == OpConst && t.W == 0 && t.V == 1 }
func (t *Term) IsFalse() bool { return t.Op == OpConst && t.W == 0 && t.V == 0 }

func mask(w int) uint64 {
	if w >= 64 {
		return ^uint64(0)
	}
	return (uint64(1) << uint(w)) - 1
}

func signExt(v uint64, w int) int64 {
	if w >= 64 {
		return int64(v)
	}
	s := uint(64 - w)
	return int64(v<<s) >> s
}

// TermCtx owns the hash-consing table. One per path execution (not shared between goroutines).
type TermCtx struct {
	tab    map[string]*Term
	nextID int
	// UF declarations: name -> signature
	ufs  map[string]string
	vars []*Term // every variable created in this context (models must cover all of them)
}

func NewTermCtx() *TermCtx {
	return &TermCtx{tab: map[string]*Term{}, nextID: 1, ufs: map[string]string{}}
}

var (
	tTrue  = &Term{Op: OpConst, W: 0, V: 1}
	tFalse = &Term{Op: OpConst, W: 0, V: 0}
)

func (c *TermCtx) Bool(b bool) *Term {
	if b {
		return tTrue
	}
	return tFalse
}

func (c *TermCtx) Const(v uint64, w int) *Term {
	if w == 0 {
		return c.Bool(v&1 == 1)
	}
	v &= mask(w)
	k := fmt.Sprintf("k%d:%d", w, v)
	if t, ok := c.tab[k]; ok {
		return t
	}
	t := &Term{Op: OpConst, W: w, V: v}
	c.tab[k] = t
	return t
}

func (c *TermCtx) Var(name string, w int) *Term {
	k := "v" + name
	if t, ok := c.tab[k]; ok {
		if t.W != w {
			panic(fmt.Sprintf("var %s redeclared with width %d (was %d)", name, w, t.W))
		}
		return t
	}
	t := &Term{Op: OpVar, W: w, Name: name}
	c.tab[k] = t
	c.vars = append(c.vars, t)
	return t
}

func (c *TermCtx) mk(op Op, w int, v uint64, hi int, name string, args ...*Term) *Term {
	var sb strings.Builder
	fmt.Fprintf(&sb, "%d:%d:%d:%d:%s", op, w, v, hi, name)
	for _, a := range args {
		if a.Op == OpConst {
			fmt.Fprintf(&sb, ",k%d:%d", a.W, a.V)
		} else if a.Op == OpVar {
			sb.WriteString(",v")
			sb.WriteString(a.Name)
		} else {
			fmt.Fprintf(&sb, ",#%d", a.ID)
		}
	}
	k := sb.String()
	if t, ok := c.tab[k]; ok {
		return t
	}
	t := &Term{Op: op, W: w, V: v, Hi: hi, Name: name, A: append([]*Term(nil), args...), ID: c.nextID}
	c.nextID++
	c.tab[k] = t
	return t
}

func same(a, b *Term) bool {
	if a == b {
		return true
	}
	if a.Op == OpConst && b.Op == OpConst {
		return a.W == b.W && a.V == b.V
	}
	if a.Op == OpVar && b.Op == OpVar {
		return a.Name == b.Name
	}
	return false
}

func (c *TermCtx) Not(a *Term) *Term {
	if a.W != 0 {
		panic("Not on non-bool")
	}
	if a.IsConst() {
		return c.Bool(a.V == 0)
	}
	if a.Op == OpNot {
		return a.A[0]
	}
	return c.mk(OpNot, 0, 0, 0, "", a)
}

func (c *TermCtx) And(a, b *Term) *Term {
	if a.W != 0 || b.W != 0 {
		panic("And on non-bool")
	}
	if a.IsFalse() || b.IsFalse() {
		return tFalse
	}
	if a.IsTrue() {
		return b
	}
	if b.IsTrue() {
		return a
	}
	if same(a, b) {
		return a
	}
	if (a.Op == OpNot && same(a.A[0], b)) || (b.Op == OpNot && same(b.A[0], a)) {
		return tFalse
	}
	return c.mk(OpAnd, 0, 0, 0, "", a, b)
}

func (c *TermCtx) Or(a, b *Term) *Term {
	if a.W != 0 || b.W != 0 {
		panic("Or on non-bool")
	}
	if a.IsTrue() || b.IsTrue() {
		return tTrue
	}
	if a.IsFalse() {
		return b
	}
	if b.IsFalse() {
		return a
	}
	if same(a, b) {
		return a
	}
	if (a.Op == OpNot && same(a.A[0], b)) || (b.Op == OpNot && same(b.A[0], a)) {
		return tTrue
	}
	return c.mk(OpOr, 0, 0, 0, "", a, b)
}

func (c *TermCtx) Implies(a, b *Term) *Term { return c.Or(c.Not(a), b) }

func (c *TermCtx) Eq(a, b *Term) *Term {
	if a.W != b.W {
		panic(fmt.Sprintf("Eq width mismatch %d vs %d", a.W, b.W))
	}
	if same(a, b) {
		return tTrue
	}
	if a.IsConst() && b.IsConst() {
		return c.Bool(a.V == b.V)
	}
	if a.IsConst() {
		a, b = b, a
	}
	if a.W == 0 {
		if b.IsTrue() {
			return a
		}
		if b.IsFalse() {
			return c.Not(a)
		}
	}
	if b.IsConst() {
		switch a.Op {
		case OpIte:
			// eq(ite(c,x,y),k) with x or y const
			x, y := a.A[1], a.A[2]
			if x.IsConst() && y.IsConst() {
				ex, ey := x.V == b.V, y.V == b.V
				switch {
				case ex && ey:
					return tTrue
				case ex:
					return a.A[0]
				case ey:
					return c.Not(a.A[0])
				default:
					return tFalse
				}
			}
			if x.IsConst() || y.IsConst() {
				return c.Ite(a.A[0], c.Eq(x, b), c.Eq(y, b))
			}
		case OpZExt:
			in := a.A[0]
			if b.V > mask(in.W) {
				return tFalse
			}
			return c.Eq(in, c.Const(b.V, in.W))
		case OpConcat:
			hi, lo := a.A[0], a.A[1]
			return c.And(c.Eq(hi, c.Const(b.V>>uint(lo.W), hi.W)), c.Eq(lo, c.Const(b.V, lo.W)))
		case OpBXor:
			if a.A[1].IsConst() {
				return c.Eq(a.A[0], c.Const(a.A[1].V^b.V, a.W))
			}
		case OpAdd:
			if a.A[1].IsConst() {
				return c.Eq(a.A[0], c.Const(b.V-a.A[1].V, a.W))
			}
		}
	}
	if a.Op == OpZExt && b.Op == OpZExt && a.A[0].W == b.A[0].W {
		return c.Eq(a.A[0], b.A[0])
	}
	if a.ID > b.ID && !b.IsConst() {
		a, b = b, a
	}
	return c.mk(OpEq, 0, 0, 0, "", a, b)
}

func (c *TermCtx) Ne(a, b *Term) *Term { return c.Not(c.Eq(a, b)) }

func (c *TermCtx) Ite(cond, a, b *Term) *Term {
	if cond.W != 0 {
		panic("Ite cond non-bool")
	}
	if a.W != b.W {
		panic(fmt.Sprintf("Ite width mismatch %d vs %d", a.W, b.W))
	}
	if cond.IsTrue() {
		return a
	}
	if cond.IsFalse() {
		return b
	}
	if same(a, b) {
		return a
	}
	if a.W == 0 {
		if a.IsTrue() && b.IsFalse() {
			return cond
		}
		if a.IsFalse() && b.IsTrue() {
			return c.Not(cond)
		}
		if a.IsTrue() {
			return c.Or(cond, b)
		}
		if a.IsFalse() {
			return c.And(c.Not(cond), b)
		}
		if b.IsTrue() {
			return c.Or(c.Not(cond), a)
		}
		if b.IsFalse() {
			return c.And(cond, a)
		}
	}
	if cond.Op == OpNot {
		return c.Ite(cond.A[0], b, a)
	}
	// ite(c, x, ite(c, y, z)) = ite(c, x, z)
	if b.Op == OpIte && same(b.A[0], cond) {
		return c.Ite(cond, a, b.A[2])
	}
	if a.Op == OpIte && same(a.A[0], cond) {
		return c.Ite(cond, a.A[1], b)
	}
	return c.mk(OpIte, a.W, 0, 0, "", cond, a, b)
}

func foldBin(op Op, w int, x, y uint64) (uint64, bool) {
	m := mask(w)
	switch op {
	case OpAdd:
		return (x + y) & m, true
	case OpSub:
		return (x - y) & m, true
	case OpMul:
		return (x * y) & m, true
	case OpUDiv:
		if y == 0 {
			return m, true
		}
		return x / y, true
	case OpURem:
		if y == 0 {
			return x, true
		}
		return x % y, true
	case OpSDiv:
		sx, sy := signExt(x, w), signExt(y, w)
		if sy == 0 {
			if sx < 0 {
				return 1, true
			}
			return m, true
		}
		if sy == -1 {
			return uint64(-sx) & m, true
		}
		return uint64(sx/sy) & m, true
	case OpSRem:
		sx, sy := signExt(x, w), signExt(y, w)
		if sy == 0 {
			return x, true
		}
		if sy == -1 {
			return 0, true
		}
		return uint64(sx%sy) & m, true
	case OpShl:
		if y >= uint64(w) {
			return 0, true
		}
		return (x << y) & m, true
	case OpLShr:
		if y >= uint64(w) {
			return 0, true
		}
		return x >> y, true
	case OpAShr:
		sx := signExt(x, w)
		if y >= uint64(w) {
			if sx < 0 {
				return m, true
			}
			return 0, true
		}
		return uint64(sx>>y) & m, true
	case OpBAnd:
		return x & y, true
	case OpBOr:
		return x | y, true
	case OpBXor:
		return x ^ y, true
	}
	return 0, false
}

func (c *TermCtx) Bin(op Op, a, b *Term) *Term {
	if a.W != b.W || a.W == 0 {
		panic(fmt.Sprintf("Bin %s width mismatch %d vs %d", opNames[op], a.W, b.W))
	}
	w := a.W
	if a.IsConst() && b.IsConst() {
		if v, ok := foldBin(op, w, a.V, b.V); ok {
			return c.Const(v, w)
		}
	}
	// commutative: const to the right
	switch op {
	case OpAdd, OpMul, OpBAnd, OpBOr, OpBXor:
		if a.IsConst() {
			a, b = b, a
		}
	}
	if b.IsConst() {
		switch op {
		case OpAdd, OpSub, OpBOr, OpBXor, OpShl, OpLShr, OpAShr:
			if b.V == 0 {
				return a
			}
		case OpMul:
			if b.V == 0 {
				return b
			}
			if b.V == 1 {
				return a
			}
		case OpUDiv, OpSDiv:
			if b.V == 1 {
				return a
			}
		case OpBAnd:
			if b.V == 0 {
				return b
			}
			if b.V == mask(w) {
				return a
			}
		}
		if op == OpBOr && b.V == mask(w) {
			return b
		}
		// (x + k1) + k2
		if op == OpAdd && a.Op == OpAdd && a.A[1].IsConst() {
			return c.Bin(OpAdd, a.A[0], c.Const(a.A[1].V+b.V, w))
		}
		if op == OpSub {
			return c.Bin(OpAdd, a, c.Const(-b.V, w))
		}
		if (op == OpShl || op == OpLShr) && b.V >= uint64(w) {
			return c.Const(0, w)
		}
		// zext(x) & mask(x.W) = zext(x)
		if op == OpBAnd && a.Op == OpZExt && b.V&mask(a.A[0].W) == mask(a.A[0].W) {
			return a
		}
		// (zext(x) >> k) with k >= x.W = 0
		if op == OpLShr && a.Op == OpZExt && b.V >= uint64(a.A[0].W) {
			return c.Const(0, w)
		}
	}
	if a.IsConst() && a.V == 0 {
		switch op {
		case OpShl, OpLShr, OpAShr, OpMul, OpBAnd, OpUDiv, OpURem:
			return a
		}
	}
	if same(a, b) {
		switch op {
		case OpSub, OpBXor:
			return c.Const(0, w)
		case OpBAnd, OpBOr:
			return a
		}
	}
	return c.mk(op, w, 0, 0, "", a, b)
}

func (c *TermCtx) Cmp(op Op, a, b *Term) *Term {
	if a.W != b.W || a.W == 0 {
		panic(fmt.Sprintf("Cmp width mismatch %d vs %d", a.W, b.W))
	}
	if a.IsConst() && b.IsConst() {
		switch op {
		case OpULt:
			return c.Bool(a.V < b.V)
		case OpULe:
			return c.Bool(a.V <= b.V)
		case OpSLt:
			return c.Bool(signExt(a.V, a.W) < signExt(b.V, b.W))
		case OpSLe:
			return c.Bool(signExt(a.V, a.W) <= signExt(b.V, b.W))
		}
	}
	if same(a, b) {
		return c.Bool(op == OpULe || op == OpSLe)
	}
	w := a.W
	switch op {
	case OpULt:
		if b.IsConst() && b.V == 0 {
			return tFalse
		}
		if a.IsConst() && a.V == mask(w) {
			return tFalse
		}
	case OpULe:
		if a.IsConst() && a.V == 0 {
			return tTrue
		}
		if b.IsConst() && b.V == mask(w) {
			return tTrue
		}
	}
	// zext(x) cmp const where const exceeds range
	if a.Op == OpZExt && b.IsConst() {
		in := a.A[0]
		mx := mask(in.W)
		switch op {
		case OpULt:
			if b.V > mx {
				return tTrue
			}
			return c.Cmp(OpULt, in, c.Const(b.V, in.W))
		case OpULe:
			if b.V >= mx {
				return tTrue
			}
			return c.Cmp(OpULe, in, c.Const(b.V, in.W))
		case OpSLt:
			if signExt(b.V, w) > int64(mx) && in.W < w {
				return tTrue
			}
			if signExt(b.V, w) <= 0 && in.W < w {
				return tFalse
			}
		case OpSLe:
			if signExt(b.V, w) >= int64(mx) && in.W < w {
				return tTrue
			}
			if signExt(b.V, w) < 0 && in.W < w {
				return tFalse
			}
		}
	}
	if b.Op == OpZExt && a.IsConst() {
		in := b.A[0]
		mx := mask(in.W)
		switch op {
		case OpULt:
			if a.V >= mx {
				return tFalse
			}
			return c.Cmp(OpULt, c.Const(a.V, in.W), in)
		case OpULe:
			if a.V > mx {
				return tFalse
			}
			return c.Cmp(OpULe, c.Const(a.V, in.W), in)
		case OpSLt:
			if signExt(a.V, w) < 0 && in.W < w {
				return tTrue
			}
			if signExt(a.V, w) >= int64(mx) && in.W < w {
				return tFalse
			}
		case OpSLe:
			if signExt(a.V, w) <= 0 && in.W < w {
				return tTrue
			}
			if signExt(a.V, w) > int64(mx) && in.W < w {
				return tFalse
			}
		}
	}
	return c.mk(op, 0, 0, 0, "", a, b)
}

func (c *TermCtx) BNot(a *Term) *Term {
	if a.IsConst() {
		return c.Const(^a.V, a.W)
	}
	if a.Op == OpBNot {
		return a.A[0]
	}
	return c.mk(OpBNot, a.W, 0, 0, "", a)
}

func (c *TermCtx) Neg(a *Term) *Term {
	if a.IsConst() {
		return c.Const(-a.V, a.W)
	}
	return c.mk(OpNeg, a.W, 0, 0, "", a)
}

func (c *TermCtx) ZExt(a *Term, w int) *Term {
	if a.W == 0 {
		panic("zext of bool")
	}
	if w == a.W {
		return a
	}
	if w < a.W {
		panic("zext narrowing")
	}
	if a.IsConst() {
		return c.Const(a.V, w)
	}
	if a.Op == OpZExt {
		return c.ZExt(a.A[0], w)
	}
	return c.mk(OpZExt, w, 0, 0, "", a)
}

func (c *TermCtx) SExt(a *Term, w int) *Term {
	if w == a.W {
		return a
	}
	if w < a.W {
		panic("sext narrowing")
	}
	if a.IsConst() {
		return c.Const(uint64(signExt(a.V, a.W)), w)
	}
	if a.Op == OpZExt {
		return c.ZExt(a.A[0], w)
	}
	return c.mk(OpSExt, w, 0, 0, "", a)
}

// Extract bits hi..lo inclusive.
func (c *TermCtx) Extract(a *Term, hi, lo int) *Term {
	w := hi - lo + 1
	if lo == 0 && w == a.W {
		return a
	}
	if hi >= a.W || lo < 0 || w <= 0 {
		panic(fmt.Sprintf("bad extract [%d:%d] of width %d", hi, lo, a.W))
	}
	if a.IsConst() {
		return c.Const(a.V>>uint(lo), w)
	}
	switch a.Op {
	case OpZExt, OpSExt:
		in := a.A[0]
		if hi < in.W {
			return c.Extract(in, hi, lo)
		}
		if lo >= in.W && a.Op == OpZExt {
			return c.Const(0, w)
		}
	case OpConcat:
		h, l := a.A[0], a.A[1]
		if hi < l.W {
			return c.Extract(l, hi, lo)
		}
		if lo >= l.W {
			return c.Extract(h, hi-l.W, lo-l.W)
		}
	case OpExtract:
		return c.Extract(a.A[0], hi+int(a.V), lo+int(a.V))
	case OpBOr, OpBAnd, OpBXor:
		return c.Bin(a.Op, c.Extract(a.A[0], hi, lo), c.Extract(a.A[1], hi, lo))
	case OpShl:
		if a.A[1].IsConst() {
			k := int(a.A[1].V)
			if lo >= k {
				return c.Extract(a.A[0], hi-k, lo-k)
			}
			if hi < k {
				return c.Const(0, w)
			}
		}
	case OpLShr:
		if a.A[1].IsConst() {
			k := int(a.A[1].V)
			if hi+k < a.W {
				return c.Extract(a.A[0], hi+k, lo+k)
			}
			if lo+k >= a.W {
				return c.Const(0, w)
			}
		}
	case OpIte:
		if a.A[1].IsConst() || a.A[2].IsConst() {
			return c.Ite(a.A[0], c.Extract(a.A[1], hi, lo), c.Extract(a.A[2], hi, lo))
		}
	}
	return c.mk(OpExtract, w, uint64(lo), hi, "", a)
}

func (c *TermCtx) Trunc(a *Term, w int) *Term { return c.Extract(a, w-1, 0) }

func (c *TermCtx) Concat(hi, lo *Term) *Term {
	w := hi.W + lo.W
	if w > 64 {
		panic("concat > 64 bits")
	}
	if hi.IsConst() && lo.IsConst() {
		return c.Const(hi.V<<uint(lo.W)|lo.V, w)
	}
	if hi.IsConst() && hi.V == 0 {
		return c.ZExt(lo, w)
	}
	return c.mk(OpConcat, w, 0, 0, "", hi, lo)
}

// UF application: result width w, name must be declared consistently.
func (c *TermCtx) UF(name string, w int, args ...*Term) *Term {
	return c.mk(OpUF, w, 0, 0, name, args...)
}

// Resize converts a to width w with zero or sign extension / truncation.
func (c *TermCtx) Resize(a *Term, w int, signed bool) *Term {
	switch {
	case w == a.W:
		return a
	case w < a.W:
		return c.Trunc(a, w)
	case signed:
		return c.SExt(a, w)
	default:
		return c.ZExt(a, w)
	}
}

func sortOf(w int) string {
	if w == 0 {
		return "Bool"
	}
	return fmt.Sprintf("(_ BitVec %d)", w)
}

func constLit(t *Term) string {
	if t.W == 0 {
		if t.V == 1 {
			return "true"
		}
		return "false"
	}
	if t.W%4 == 0 {
		return fmt.Sprintf("#x%0*x", t.W/4, t.V)
	}
	return fmt.Sprintf("#b%0*b", t.W, t.V)
}

func refName(t *Term) string {
	switch t.Op {
	case OpConst:
		return constLit(t)
	case OpVar:
		return t.Name
	}
	return fmt.Sprintf("t%d", t.ID)
}

// exprOf prints the node with children by reference.
func exprOf(t *Term) string {
	var sb strings.Builder
	switch t.Op {
	case OpZExt:
		fmt.Fprintf(&sb, "((_ zero_extend %d) %s)", t.W-t.A[0].W, refName(t.A[0]))
	case OpSExt:
		fmt.Fprintf(&sb, "((_ sign_extend %d) %s)", t.W-t.A[0].W, refName(t.A[0]))
	case OpExtract:
		fmt.Fprintf(&sb, "((_ extract %d %d) %s)", t.Hi, int(t.V), refName(t.A[0]))
	case OpUF:
		if len(t.A) == 0 {
			return t.Name
		}
		sb.WriteString("(" + t.Name)
		for _, a := range t.A {
			sb.WriteString(" " + refName(a))
		}
		sb.WriteString(")")
	default:
		sb.WriteString("(" + opNames[t.Op])
		for _, a := range t.A {
			sb.WriteString(" " + refName(a))
		}
		sb.WriteString(")")
	}
	return sb.String()
}

// Eval evaluates t under a model of its variables (missing vars = 0). UFs are not supported (returns ok=false).
func Eval(t *Term, model map[string]uint64, memo map[*Term]uint64) (uint64, bool) {
	if v, ok := memo[t]; ok {
		return v, true
	}
	var r uint64
	switch t.Op {
	case OpConst:
		r = t.V
	case OpVar:
		v, ok := model[t.Name]
		if !ok {
			return 0, false // the model predates this variable
		}
		r = v & maskB(t.W)
	case OpUF:
		return 0, false
	default:
		vs := make([]uint64, len(t.A))
		for i, a := range t.A {
			v, ok := Eval(a, model, memo)
			if !ok {
				return 0, false
			}
			vs[i] = v
		}
		b := func(x bool) uint64 {
			if x {
				return 1
			}
			return 0
		}
		switch t.Op {
		case OpNot:
			r = 1 - vs[0]
		case OpAnd:
			r = vs[0] & vs[1]
		case OpOr:
			r = vs[0] | vs[1]
		case OpEq:
			r = b(vs[0] == vs[1])
		case OpIte:
			if vs[0] == 1 {
				r = vs[1]
			} else {
				r = vs[2]
			}
		case OpBNot:
			r = ^vs[0] & mask(t.W)
		case OpNeg:
			r = -vs[0] & mask(t.W)
		case OpULt:
			r = b(vs[0] < vs[1])
		case OpULe:
			r = b(vs[0] <= vs[1])
		case OpSLt:
			r = b(signExt(vs[0], t.A[0].W) < signExt(vs[1], t.A[0].W))
		case OpSLe:
			r = b(signExt(vs[0], t.A[0].W) <= signExt(vs[1], t.A[0].W))
		case OpZExt:
			r = vs[0]
		case OpSExt:
			r = uint64(signExt(vs[0], t.A[0].W)) & mask(t.W)
		case OpExtract:
			r = (vs[0] >> t.V) & mask(t.W)
		case OpConcat:
			r = vs[0]<<uint(t.A[1].W) | vs[1]
		default:
			v, ok := foldBin(t.Op, t.W, vs[0], vs[1])
			if !ok {
				return 0, false
			}
			r = v
		}
	}
	memo[t] = r
	return r, true
}

func maskB(w int) uint64 {
	if w == 0 {
		return 1
	}
	return mask(w)
}

var _ = bits.Len

// Rebuild constructs a term with the same operator as t over new arguments (through the simplifying constructors).
func (c *TermCtx) Rebuild(t *Term, a []*Term) *Term {
	switch t.Op {
	case OpNot:
		return c.Not(a[0])
	case OpAnd:
		return c.And(a[0], a[1])
	case OpOr:
		return c.Or(a[0], a[1])
	case OpEq:
		return c.Eq(a[0], a[1])
	case OpIte:
		return c.Ite(a[0], a[1], a[2])
	case OpBNot:
		return c.BNot(a[0])
	case OpNeg:
		return c.Neg(a[0])
	case OpULt, OpULe, OpSLt, OpSLe:
		return c.Cmp(t.Op, a[0], a[1])
	case OpZExt:
		return c.ZExt(a[0], t.W)
	case OpSExt:
		return c.SExt(a[0], t.W)
	case OpExtract:
		return c.Extract(a[0], t.Hi, int(t.V))
	case OpConcat:
		return c.Concat(a[0], a[1])
	case OpUF:
		return c.UF(t.Name, t.W, a...)
	case OpConst, OpVar:
		return t
	}
	return c.Bin(t.Op, a[0], a[1])
}
