package main

import (
	"encoding/json"
	"fmt"
	"os"
	"path/filepath"
	"sort"
	"strings"
	"time"
)

func loadKnown() KnownFile {
	var kf KnownFile
	b, err := os.ReadFile(filepath.Join(harnessDir(), "known_findings.json"))
	if err == nil {
		json.Unmarshal(b, &kf)
	}
	return kf
}

// finish classifies violations, replays new ones, writes evidence and returns the exit code.
func finish(ps *PropertySpec, tier string, seed int, results []*HarnessResult, ld *Loaded, t0 time.Time, noReplay bool) int {
	kf := loadKnown()
	known := map[string]KnownFinding{}
	for _, k := range kf.Known {
		if k.Property == ps.ID {
			known[k.Key] = k
		}
	}
	outDir := filepath.Join(harnessDir(), "out", ps.ID)
	os.MkdirAll(outDir, 0o755)
	var newViol, knownHit []*Violation
	inconclusive := []string{}
	paths, instrs := 0, 0
	var qs SolverStats
	funcs, stubsU := map[string]bool{}, map[string]bool{}
	var samples []interface{}
	obligations := 0
	for _, hr := range results {
		paths += hr.Paths
		instrs += hr.Instrs
		qs.Sat += hr.Queries.Sat
		qs.Unsat += hr.Queries.Unsat
		qs.Unknown += hr.Queries.Unknown
		qs.Time += hr.Queries.Time
		qs.Errors += hr.Queries.Errors
		obligations++
		for f := range hr.Funcs {
			if strings.Contains(f, repoModule) && !strings.Contains(f, "Verif") && !strings.Contains(f, ".verif") {
				funcs[f] = true
			}
		}
		for s := range hr.Stubs {
			stubsU[s] = true
		}
		for k, n := range hr.Unsupported {
			inconclusive = append(inconclusive, fmt.Sprintf("%s: unsupported x%d: %s", hr.Spec.Fn, n, k))
		}
		for k, n := range hr.Unwinds {
			inconclusive = append(inconclusive, fmt.Sprintf("%s: bound exceeded x%d: %s", hr.Spec.Fn, n, k))
		}
		for _, e := range hr.EngineErrs {
			inconclusive = append(inconclusive, fmt.Sprintf("%s: %s", hr.Spec.Fn, firstLine(e)))
		}
		if hr.Truncated {
			inconclusive = append(inconclusive, fmt.Sprintf("%s: path budget exhausted after %d paths", hr.Spec.Fn, hr.Paths))
		}
		if hr.UnknownAsrt > 0 {
			inconclusive = append(inconclusive, fmt.Sprintf("%s: %d assertion queries returned unknown", hr.Spec.Fn, hr.UnknownAsrt))
		}
		if hr.Queries.Errors > 0 {
			inconclusive = append(inconclusive, fmt.Sprintf("%s: %d solver error lines", hr.Spec.Fn, hr.Queries.Errors))
		}
		for _, rid := range hr.Spec.Reach {
			if !hr.Reached[rid] {
				inconclusive = append(inconclusive, fmt.Sprintf("%s: VACUOUS reach point %q not reachable", hr.Spec.Fn, rid))
			}
		}
		if hr.Paths == 0 {
			inconclusive = append(inconclusive, fmt.Sprintf("%s: no path executed", hr.Spec.Fn))
		}
		for _, v := range hr.Violations {
			if _, ok := known[v.Key]; ok {
				knownHit = append(knownHit, v)
			} else {
				newViol = append(newViol, v)
			}
		}
		s := map[string]interface{}{"harness": hr.Spec.Fn, "paths": hr.Paths, "ends": hr.Ends, "wall_s": round2(hr.Wall),
			"queries": map[string]int{"sat": hr.Queries.Sat, "unsat": hr.Queries.Unsat, "unknown": hr.Queries.Unknown}, "path_samples": hr.Samples}
		if len(hr.Spec.Params) > 0 {
			s["params"] = hr.Spec.Params
		}
		samples = append(samples, s)
	}
	// replay new violations natively
	exit := 0
	validated := 0
	for i, v := range newViol {
		wpath := filepath.Join(outDir, fmt.Sprintf("%s.%d.witness.json", v.Harness, i))
		writeJSON(wpath, v)
		v.Replay = wpath
		status := "not-replayed"
		if !noReplay {
			status = replayNative(ps, v, wpath, results)
		}
		v.Status = status
		writeJSON(wpath, v)
		switch status {
		case "reproduced", "not-replayed", "replay-unsupported", "replay-error":
			if status == "reproduced" {
				validated++
			}
			fmt.Printf("VIOLATION property=%s replay=%s\n", ps.ID, wpath)
			fmt.Printf("  harness=%s kind=%s site=%s msg=%q tags=%v replay-status=%s\n", v.Harness, v.Kind, v.Site, v.Msg, v.Tags, status)
			exit = 1
		default:
			inconclusive = append(inconclusive, fmt.Sprintf("%s: ENCODER-MISMATCH witness did not reproduce natively (%s): %s", v.Harness, status, v.Key))
		}
	}
	if !noReplay {
		nv, bad := validateTraces(ps, results, outDir)
		validated += nv
		for _, b := range bad {
			inconclusive = append(inconclusive, "ENCODER-MISMATCH (trace validation): "+b)
		}
	}
	seenKnown := map[string]bool{}
	for _, v := range knownHit {
		if !seenKnown[v.Key] {
			seenKnown[v.Key] = true
			fmt.Printf("KNOWN-FINDING: property=%s %s [%s]\n", ps.ID, known[v.Key].What, v.Key)
		}
	}
	for k, kfnd := range known {
		if !seenKnown[k] {
			fmt.Fprintf(os.Stderr, "note: known finding no longer observed: %s (%s)\n", k, kfnd.What)
		}
	}
	sort.Strings(inconclusive)
	if exit == 0 && len(inconclusive) > 0 {
		for _, m := range inconclusive {
			fmt.Printf("INCONCLUSIVE property=%s reason=%s\n", ps.ID, m)
		}
		exit = 2
	}
	var fl, sl []string
	for f := range funcs {
		fl = append(fl, strings.ReplaceAll(f, repoModule+"/", ""))
	}
	for s := range stubsU {
		sl = append(sl, s)
	}
	sort.Strings(fl)
	sort.Strings(sl)
	level := ps.Level
	if level == "" {
		level = "model_checking"
	}
	cov := map[string]interface{}{
		"states":                        paths,
		"transitions":                   instrs,
		"traces_validated_against_impl": validated,
		"samples":                       samples,
		"harnesses":                     obligations,
		"functions_encoded":             fl,
		"stubs":                         sl,
		"bounds":                        ps.Bounds,
		"queries":                       map[string]int{"sat": qs.Sat, "unsat": qs.Unsat, "unknown": qs.Unknown, "solver_error_lines": qs.Errors},
		"solver_time_s":                 round2(qs.Time.Seconds()),
		"solver":                        solverDesc,
		"load_s":                        round2(ld.loadS),
		"known_findings_observed":       len(seenKnown),
		"inconclusive":                  inconclusive,
		"exhaustive":                    len(inconclusive) == 0,
		"evaluations":                   paths,
		"distinct_nontrivial":           paths,
		"rule":                          "each evaluation is one completed symbolic path (distinct decision sequence) of a harness over the SSA of /repo's current tree; every path condition is distinct by construction",
	}
	if level == "translation_validation" {
		cov["programs"] = obligations
		cov["disagreements_checked"] = qs.Sat + qs.Unsat
	}
	ev := map[string]interface{}{
		"property_id": ps.ID, "tier": tier, "seed": seed, "level": level, "coverage": cov,
		"assumptions": ps.Assume, "wall_s": round2(time.Since(t0).Seconds()), "violations": len(newViol),
	}
	if err := writeJSON(filepath.Join(harnessDir(), "evidence", ps.ID+".json"), ev); err != nil {
		fmt.Fprintln(os.Stderr, "evidence:", err)
	}
	fmt.Fprintf(os.Stderr, "%s %s: paths=%d instrs=%d violations=%d known=%d inconclusive=%d wall=%.1fs exit=%d\n", ps.ID, tier, paths, instrs, len(newViol), len(seenKnown), len(inconclusive), time.Since(t0).Seconds(), exit)
	return exit
}

var solverDesc = "z3 5.1.0 (z3-new -in, incremental, one process per worker)"

func firstLine(s string) string {
	if i := strings.Index(s, "\n"); i >= 0 {
		return s[:i]
	}
	return s
}

func round2(f float64) float64 { return float64(int(f*100+0.5)) / 100 }
