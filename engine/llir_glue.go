//go:build llir

package main

// Glue between Go harnesses (go/ssa side) and the eBPF programs (LLVM-IR side): one set of map models per path is
// shared by both, so the bytes the Go control plane writes with (*ebpf.Map).Put are the bytes the C program reads.

import (
	"fmt"
	"go/types"
)

type bpfShared struct {
	maps    map[string]map[string]*LLMap // prog -> map name -> model
	mode    string
	bound   map[*Value]*LLMap
	now     *Term
	skbLen  *Term
	lastPkt *LLObj
	events  int
}

func (in *Interp) bpf() *bpfShared {
	if v, ok := in.env.kv["bpf"]; ok {
		return v.(*bpfShared)
	}
	b := &bpfShared{maps: map[string]map[string]*LLMap{}, mode: "null", bound: map[*Value]*LLMap{}}
	in.env.kv["bpf"] = b
	return b
}

func (in *Interp) bpfMapsFor(prog string) map[string]*LLMap {
	b := in.bpf()
	if m, ok := b.maps[prog]; ok {
		return m
	}
	m := in.BPFMaps(prog, b.mode)
	b.maps[prog] = m
	return m
}

// marshalBinary lays a Go value out the way encoding/binary (and cilium/ebpf's sysenc for padding-free types) does:
// fields in declaration order, little endian, no implicit padding.
func (in *Interp) marshalBinary(v Value, t types.Type) []*Term {
	tc := in.tc
	switch u := t.Underlying().(type) {
	case *types.Basic:
		x, ok := v.(*Term)
		if !ok {
			panic(unsupported("marshal of non-integer basic " + t.String()))
		}
		if x.W == 0 {
			return []*Term{tc.Ite(x, tc.Const(1, 8), tc.Const(0, 8))}
		}
		var bs []*Term
		for i := 0; i < x.W/8; i++ {
			bs = append(bs, tc.Extract(x, 8*i+7, 8*i))
		}
		return bs
	case *types.Array:
		var bs []*Term
		for _, e := range v.(Array) {
			bs = append(bs, in.marshalBinary(e, u.Elem())...)
		}
		return bs
	case *types.Struct:
		var bs []*Term
		st := v.(Struct)
		for i := 0; i < u.NumFields(); i++ {
			bs = append(bs, in.marshalBinary(st[i], u.Field(i).Type())...)
		}
		return bs
	case *types.Pointer:
		p, _ := v.(*Value)
		if p == nil {
			panic(unsupported("marshal of nil pointer"))
		}
		return in.marshalBinary(*p, u.Elem())
	case *types.Slice:
		return in.sliceBytes(v, "marshal slice")
	}
	panic(unsupported("marshal of " + t.String()))
}

func (in *Interp) unmarshalBinary(bs []*Term, t types.Type) (Value, []*Term) {
	tc := in.tc
	switch u := t.Underlying().(type) {
	case *types.Basic:
		w := in.widthOf(u)
		if w == 0 {
			return tc.Ne(bs[0], tc.Const(0, 8)), bs[1:]
		}
		n := w / 8
		x := bs[n-1]
		for i := n - 2; i >= 0; i-- {
			x = tc.Concat(x, bs[i])
		}
		return x, bs[n:]
	case *types.Array:
		a := make(Array, u.Len())
		for i := range a {
			a[i], bs = in.unmarshalBinary(bs, u.Elem())
		}
		return a, bs
	case *types.Struct:
		st := make(Struct, u.NumFields())
		for i := range st {
			st[i], bs = in.unmarshalBinary(bs, u.Field(i).Type())
		}
		return st, bs
	}
	panic(unsupported("unmarshal of " + t.String()))
}

func (in *Interp) boundMap(recv Value) *LLMap {
	p, _ := recv.(*Value)
	if p == nil {
		in.rtPanic("invalid memory address or nil pointer dereference")
	}
	m := in.bpf().bound[p]
	if m == nil {
		panic(unsupported("llir: (*ebpf.Map) used without vBPFBindMap"))
	}
	return m
}

func ifaceBytes(in *Interp, v Value) []*Term {
	itf, ok := v.(Iface)
	if !ok || itf.T == nil {
		panic(unsupported("llir: map key/value is not an interface value"))
	}
	return in.marshalBinary(itf.V, itf.T)
}

func (in *Interp) llRunFor() *llRun {
	return &llRun{in: in, env: &LLEnv{}, globals: map[string]*LLObj{}}
}

func init() {
	h := harnessAPI
	h["vBPFMapsMode"] = func(in *Interp, fr *frame, a []Value) Value {
		in.bpf().mode = a[0].(string)
		return nil
	}
	h["vBPFBindMap"] = func(in *Interp, fr *frame, a []Value) Value {
		var p *Value
		if itf, ok := a[0].(Iface); ok {
			p, _ = itf.V.(*Value)
		} else {
			p, _ = a[0].(*Value)
		}
		if p == nil {
			panic(unsupported("vBPFBindMap(nil)"))
		}
		prog, name := a[1].(string), a[2].(string)
		m := in.bpfMapsFor(prog)[name]
		if m == nil {
			panic(unsupported(fmt.Sprintf("llir: program %s has no map %s", prog, name)))
		}
		in.bpf().bound[p] = m
		return nil
	}
	// vBPFMapClear(prog, name): every entry of the map is gone (LRU eviction, flush)
	h["vBPFMapClear"] = func(in *Interp, fr *frame, a []Value) Value {
		if m := in.bpfMapsFor(a[0].(string))[a[1].(string)]; m != nil {
			for _, e := range m.Entries {
				e.Deleted = true
			}
		}
		return nil
	}
	h["vBPFNow"] = func(in *Interp, fr *frame, a []Value) Value {
		in.bpf().now = a[0].(*Term)
		return nil
	}
	h["vBPFSkbLen"] = func(in *Interp, fr *frame, a []Value) Value {
		in.bpf().skbLen = in.tc.Resize(a[0].(*Term), 32, false)
		return nil
	}
	h["vBPFRun"] = func(in *Interp, fr *frame, a []Value) Value {
		prog, entry, kind := a[0].(string), a[1].(string), a[2].(string)
		b := in.bpf()
		env := &LLEnv{Packet: in.PacketFromSlice("pkt", a[3].(SliceV)), Maps: in.bpfMapsFor(prog), Now: b.now, SkbLen: b.skbLen}
		run, _ := in.RunBPF(prog, entry, kind, env)
		b.lastPkt = run.Packet
		b.events = len(env.Events)
		return run.Verdict
	}
	h["vBPFPacket"] = func(in *Interp, fr *frame, a []Value) Value {
		if in.bpf().lastPkt == nil {
			return SliceV{Off: in.k64(0), N: in.k64(0), C: in.k64(0)}
		}
		return in.SliceFromPacket(in.bpf().lastPkt)
	}
	h["vBPFMapValueSize"] = func(in *Interp, fr *frame, a []Value) Value {
		m := in.bpfMapsFor(a[0].(string))[a[1].(string)]
		if m == nil {
			return in.k64(-1)
		}
		if a[2].(*Term).V == 1 {
			return in.k64(int64(m.KeySize))
		}
		return in.k64(int64(m.ValSize))
	}
	h["vBPFMarshal"] = func(in *Interp, fr *frame, a []Value) Value {
		bs := ifaceBytes(in, a[0])
		arr := make([]Value, len(bs))
		for i, b := range bs {
			arr[i] = b
		}
		return in.mkSliceConst(arr)
	}
	h["vBPFMapLive"] = func(in *Interp, fr *frame, a []Value) Value {
		m := in.bpfMapsFor(a[0].(string))[a[1].(string)]
		n := 0
		if m != nil {
			for _, e := range m.Entries {
				if !e.Deleted {
					n++
				}
			}
		}
		return in.k64(int64(n))
	}
	s := stubs
	const mp = "(*github.com/cilium/ebpf.Map)."
	put := func(in *Interp, fr *frame, a []Value) Value {
		m := in.boundMap(a[0])
		key, val := ifaceBytes(in, a[1]), ifaceBytes(in, a[2])
		if len(key) != m.KeySize {
			return in.mkError(fmt.Sprintf("ebpf: key size %d does not match map %s key size %d", len(key), m.Name, m.KeySize))
		}
		if len(val) != m.ValSize {
			return in.mkError(fmt.Sprintf("ebpf: value size %d does not match map %s value size %d", len(val), m.Name, m.ValSize))
		}
		r := in.llRunFor()
		r.mapUpdate(m, key, val, 0)
		return Iface{}
	}
	s[mp+"Put"] = put
	s[mp+"Update"] = put
	s[mp+"Delete"] = func(in *Interp, fr *frame, a []Value) Value {
		m := in.boundMap(a[0])
		key := ifaceBytes(in, a[1])
		if len(key) != m.KeySize {
			return in.mkError("ebpf: key size mismatch")
		}
		r := in.llRunFor()
		if e := r.findEntry(m, key); e != nil && !e.Deleted {
			e.Deleted = true
			return Iface{}
		}
		return in.mkError("ebpf: key does not exist")
	}
	s[mp+"Lookup"] = func(in *Interp, fr *frame, a []Value) Value {
		m := in.boundMap(a[0])
		key := ifaceBytes(in, a[1])
		if len(key) != m.KeySize {
			return in.mkError("ebpf: key size mismatch")
		}
		r := in.llRunFor()
		e := r.findEntry(m, key)
		if e == nil || e.Deleted {
			return in.mkError("ebpf: key does not exist")
		}
		out, _ := a[2].(Iface)
		p, _ := out.V.(*Value)
		pt, _ := out.T.Underlying().(*types.Pointer)
		if p == nil || pt == nil {
			panic(unsupported("llir: Lookup into a non-pointer"))
		}
		bs := make([]*Term, m.ValSize)
		for i := range bs {
			bs[i] = e.Val.Bytes[i]
		}
		v, _ := in.unmarshalBinary(bs, pt.Elem())
		*p = v
		return Iface{}
	}
	s[mp+"Close"] = func(in *Interp, fr *frame, a []Value) Value { return Iface{} }
}

// ---- C06: struct layout agreement ----

type layoutLeaf struct {
	off, size int
	name      string
	val       *Term // Go side only
	bytesArr  bool
}

func flattenC(t *LLType, base int, out *[]layoutLeaf) {
	switch t.Kind {
	case LLInt:
		*out = append(*out, layoutLeaf{off: base, size: t.Size()})
	case LLArray:
		if t.Elem.Kind == LLInt && t.Elem.Bits == 8 {
			*out = append(*out, layoutLeaf{off: base, size: t.N, bytesArr: true})
			return
		}
		for i := 0; i < t.N; i++ {
			flattenC(t.Elem, base+i*t.Elem.Size(), out)
		}
	case LLStruct:
		for i, f := range t.Fields {
			flattenC(f, base+t.FieldOffset(i), out)
		}
	default:
		*out = append(*out, layoutLeaf{off: base, size: t.Size()})
	}
}

// flattenGo walks a Go type in encoding/binary order creating a fresh symbolic value per named scalar leaf.
func (in *Interp) flattenGo(t types.Type, name string, off *int, blank bool, out *[]layoutLeaf, bytesOut *[]*Term) {
	tc := in.tc
	switch u := t.Underlying().(type) {
	case *types.Basic:
		w := in.widthOf(u)
		size := 1
		if w > 0 {
			size = w / 8
		}
		var v *Term
		if w == 0 {
			v = in.fresh(name, 8)
		} else {
			v = in.fresh(name, w)
		}
		if !blank {
			*out = append(*out, layoutLeaf{off: *off, size: size, name: name, val: v})
		} else {
			*out = append(*out, layoutLeaf{off: *off, size: size, name: "_"})
		}
		for i := 0; i < size; i++ {
			*bytesOut = append(*bytesOut, tc.Extract(v, 8*i+7, 8*i))
		}
		*off += size
	case *types.Array:
		if b, ok := u.Elem().Underlying().(*types.Basic); ok && b.Kind() == types.Uint8 {
			if !blank {
				*out = append(*out, layoutLeaf{off: *off, size: int(u.Len()), name: name, bytesArr: true})
			}
			for i := 0; i < int(u.Len()); i++ {
				*bytesOut = append(*bytesOut, in.fresh(fmt.Sprintf("%s[%d]", name, i), 8))
			}
			*off += int(u.Len())
			return
		}
		for i := 0; i < int(u.Len()); i++ {
			in.flattenGo(u.Elem(), fmt.Sprintf("%s[%d]", name, i), off, blank, out, bytesOut)
		}
	case *types.Struct:
		for i := 0; i < u.NumFields(); i++ {
			f := u.Field(i)
			n := f.Name()
			if name != "" {
				n = name + "." + n
			}
			in.flattenGo(f.Type(), n, off, blank || f.Name() == "_", out, bytesOut)
		}
	default:
		panic(unsupported("layout of Go type " + t.String()))
	}
}

func init() {
	// vBPFLayout(prog, cStruct string, goZero interface{}): the bytes the control plane marshals for a value of the Go
	// type must have the size, field offsets and widths of the C struct, and every C field read must return the Go field.
	harnessAPI["vBPFLayout"] = func(in *Interp, fr *frame, a []Value) Value {
		prog, cname := a[0].(string), a[1].(string)
		itf, ok := a[2].(Iface)
		if !ok || itf.T == nil {
			panic(unsupported("vBPFLayout needs a typed value"))
		}
		mod, err := loadBPFModule(prog)
		if err != nil {
			panic(unsupported("llir: " + err.Error()))
		}
		ct := mod.Types["struct."+cname]
		if ct == nil {
			ct = mod.Types[cname]
		}
		if ct == nil {
			panic(unsupported(fmt.Sprintf("llir: C struct %s not found in the IR of %s.c (layout cannot be checked)", cname, prog)))
		}
		site := "layout " + itf.T.String() + " <-> struct " + cname
		var cLeaves, gLeaves []layoutLeaf
		flattenC(ct, 0, &cLeaves)
		off := 0
		var gbytes []*Term
		in.flattenGo(itf.T, "", &off, false, &gLeaves, &gbytes)
		tc := in.tc
		fail := func(cond bool, msg, where string) {
			if !cond && in.definitelyFeasible() {
				in.ensureModel()
				in.report("assert", msg, site+": "+where, in.path.model)
			}
		}
		fail(off == ct.Size(), "marshalled size of the Go type differs from the C struct size", fmt.Sprintf("Go %d bytes, C %d bytes", off, ct.Size()))
		cAt := map[int]layoutLeaf{}
		for _, l := range cLeaves {
			cAt[l.off] = l
		}
		gAt := map[int]layoutLeaf{}
		for _, l := range gLeaves {
			gAt[l.off] = l
			if l.name == "_" {
				continue // explicit Go padding: only has to cover C padding of the same place (checked from the C side)
			}
			c, ok := cAt[l.off]
			fail(ok && c.size == l.size, "Go field has no C field of the same offset and width", fmt.Sprintf("Go field %s at offset %d (%d bytes)", l.name, l.off, l.size))
			if ok && c.size == l.size && l.val != nil && l.off+l.size <= len(gbytes) {
				// what the C program loads from the marshalled bytes (little endian) is the Go field's value
				rd := gbytes[l.off+l.size-1]
				for i := l.size - 2; i >= 0; i-- {
					rd = tc.Concat(rd, gbytes[l.off+i])
				}
				in.assertTerm(tc.Eq(rd, l.val), "C read of field "+l.name+" differs from the value written by Go", site)
			}
		}
		for _, c := range cLeaves {
			if c.bytesArr {
				continue // byte arrays in C are either real fields (checked from the Go side) or explicit padding
			}
			g, ok := gAt[c.off]
			ok = ok && g.size == c.size
			fail(ok, "C struct has a field that the Go type does not write at that offset", fmt.Sprintf("C field at offset %d (%d bytes)", c.off, c.size))
		}
		return nil
	}
}

// CallBPFFunc runs one (non-entry) function of a program module on plain arguments: byte buffers become objects,
// integers stay integers. Used for the probe wrappers around the programs' inline helpers.
func (in *Interp) CallBPFFunc(prog, fn string, args []LLVal) LLVal {
	mod, lerr := loadBPFModule(prog)
	if lerr != nil {
		panic(unsupported("llir: " + lerr.Error()))
	}
	r := &llRun{in: in, mod: mod, env: &LLEnv{Maps: map[string]*LLMap{}}, kind: "tc", globals: map[string]*LLObj{}, specMode: 1, specPure: true, specStack: true}
	defer func() {
		if rec := recover(); rec != nil {
			if e, ok := rec.(llErr); ok {
				panic(unsupported("llir: " + e.msg + " at " + r.where()))
			}
			panic(rec)
		}
	}()
	f := mod.Funcs[fn]
	if f == nil || f.Decl {
		panic(unsupported("llir: no function " + fn + " in " + prog))
	}
	return r.callFunc(f, args)
}

func init() {
	// vBPFCallU64(prog, fn string, buf []byte, x uint64) uint64: calls fn(buf, x) in the program module
	harnessAPI["vBPFCallU64"] = func(in *Interp, fr *frame, a []Value) Value {
		prog, fn := a[0].(string), a[1].(string)
		obj := in.PacketFromSlice("arg", a[2].(SliceV))
		obj.Len = nil
		ret := in.CallBPFFunc(prog, fn, []LLVal{{T: in.tc.Const(0, 64), Obj: obj}, {T: a[3].(*Term)}})
		if ret.T == nil || ret.Obj != nil {
			panic(unsupported("llir: probe returned a non-integer"))
		}
		return in.tc.Resize(ret.T, 64, false)
	}
}
