package main

import (
	"encoding/json"
	"flag"
	"fmt"
	"os"
	"path/filepath"
	"runtime"
	"sort"
	"strconv"
	"strings"
	"time"
)

type KnownFinding struct {
	Property string `json:"property"`
	Key      string `json:"key"`  // violation key (harness|kind|site|msg|tags)
	What     string `json:"what"` // human description
}

type KnownFile struct {
	Known []KnownFinding `json:"known"`
	Fixed []string       `json:"fixed"`
}

func defaultConfig() Config {
	return Config{MaxAlloc: 1 << 16, MaxSymAlloc: 96, MaxConcretize: 300, Unwind: 80, MaxSteps: 3_000_000,
		SolverKind: "z3-new", TimeoutMs: 20000, MaxPaths: 20000, TraceSamples: 3}
}

func main() {
	if len(os.Args) < 2 {
		fmt.Fprintln(os.Stderr, "usage: bngsym run|harness ...")
		os.Exit(2)
	}
	switch os.Args[1] {
	case "run":
		os.Exit(cmdRun(os.Args[2:]))
	case "harness":
		os.Exit(cmdHarness(os.Args[2:]))
	default:
		if f, ok := extraCommands[os.Args[1]]; ok {
			os.Exit(f(os.Args[2:]))
		}
		fmt.Fprintln(os.Stderr, "unknown command")
		os.Exit(2)
	}
}

// extraCommands lets optional front ends (build tag llir) register sub-commands.
var extraCommands = map[string]func(args []string) int{}

func loadSpecs() (map[string]*PropertySpec, error) {
	b, err := os.ReadFile(filepath.Join(harnessDir(), "checks.json"))
	if err != nil {
		return nil, err
	}
	var list []*PropertySpec
	if err := json.Unmarshal(b, &list); err != nil {
		return nil, err
	}
	m := map[string]*PropertySpec{}
	for _, p := range list {
		m[p.ID] = p
	}
	return m, nil
}

func cmdHarness(args []string) int {
	fs := flag.NewFlagSet("harness", flag.ExitOnError)
	pkg := fs.String("pkg", "", "repo-relative package dir")
	fn := fs.String("fn", "", "harness function")
	workers := fs.Int("workers", runtime.NumCPU(), "")
	solver := fs.String("solver", "z3-new", "")
	params := fs.String("params", "", "k=v,k=v")
	unwind := fs.Int("unwind", 0, "")
	maxPaths := fs.Int("maxpaths", 0, "")
	timeout := fs.Int("timeout", 20000, "")
	fs.Parse(args)
	ld, err := loadProgram([]string{*pkg})
	if err != nil {
		fmt.Fprintln(os.Stderr, "load:", err)
		return 2
	}
	fmt.Fprintf(os.Stderr, "loaded in %.1fs\n", ld.loadS)
	cfg := defaultConfig()
	cfg.SolverKind = *solver
	cfg.TimeoutMs = *timeout
	r := &Runner{ld: ld, cfg: cfg, workers: *workers}
	spec := HarnessSpec{Pkg: *pkg, Fn: *fn, Params: map[string]int{}, Unwind: *unwind, MaxPaths: *maxPaths}
	for _, kv := range strings.Split(*params, ",") {
		if i := strings.Index(kv, "="); i > 0 {
			v, _ := strconv.Atoi(kv[i+1:])
			spec.Params[kv[:i]] = v
		}
	}
	hr := r.RunHarness(spec, "quick")
	printHarnessResult(hr, true)
	if len(hr.Violations) > 0 {
		return 1
	}
	return 0
}

func printHarnessResult(hr *HarnessResult, verbose bool) {
	fmt.Fprintf(os.Stderr, "== %s: paths=%d ends=%v instrs=%d queries sat=%d unsat=%d unknown=%d (%.1fs solver) wall=%.1fs truncated=%v\n",
		hr.Spec.Fn, hr.Paths, hr.Ends, hr.Instrs, hr.Queries.Sat, hr.Queries.Unsat, hr.Queries.Unknown, hr.Queries.Time.Seconds(), hr.Wall, hr.Truncated)
	for k, n := range hr.Unsupported {
		fmt.Fprintf(os.Stderr, "   UNSUPPORTED x%d: %s\n", n, k)
	}
	for k, n := range hr.Unwinds {
		fmt.Fprintf(os.Stderr, "   BOUND x%d: %s\n", n, k)
	}
	for _, u := range hr.UnknownMsgs {
		fmt.Fprintf(os.Stderr, "   UNKNOWN: %s\n", u)
	}
	for _, e := range hr.EngineErrs {
		fmt.Fprintf(os.Stderr, "   ENGINE: %s\n", e)
	}
	for _, v := range hr.Violations {
		fmt.Fprintf(os.Stderr, "   VIOL %s\n", v.Key)
		if verbose {
			for _, s := range v.Stack {
				fmt.Fprintf(os.Stderr, "        at %s\n", s)
			}
			var sb strings.Builder
			for i, w := range v.ND {
				if i > 80 {
					sb.WriteString(" ...")
					break
				}
				fmt.Fprintf(&sb, " %s=%d", w.Tag, w.V)
			}
			fmt.Fprintf(os.Stderr, "        nd:%s\n", sb.String())
		}
	}
	if forkSitesOn {
		for k, n := range forkSites {
			fmt.Fprintf(os.Stderr, "   forksite %6d %s\n", n, k)
		}
	}
	if verbose && os.Getenv("VERIF_DEBUG") != "" {
		fmt.Fprintf(os.Stderr, "   decisions histogram: %v\n", hr.DecHist)
	}
	if verbose {
		var rs []string
		for k := range hr.Reached {
			rs = append(rs, k)
		}
		sort.Strings(rs)
		fmt.Fprintf(os.Stderr, "   reached: %v\n", rs)
		for _, s := range hr.Samples {
			fmt.Fprintf(os.Stderr, "   sample: %s\n", s)
		}
	}
}

func cmdRun(args []string) int {
	fs := flag.NewFlagSet("run", flag.ExitOnError)
	prop := fs.String("property", "", "property id")
	tier := fs.String("tier", "quick", "quick|thorough")
	workers := fs.Int("workers", runtime.NumCPU(), "")
	solver := fs.String("solver", "z3-new", "")
	only := fs.String("only", "", "run only harnesses whose name contains this")
	noReplay := fs.Bool("noreplay", false, "")
	fs.Parse(args)
	t0 := time.Now()
	os.Setenv("VERIF_TIER_ACTIVE", *tier)
	seed := 0
	if s := os.Getenv("VERIF_SEED"); s != "" {
		seed, _ = strconv.Atoi(s)
	}
	specs, err := loadSpecs()
	if err != nil {
		fmt.Fprintln(os.Stderr, "specs:", err)
		return 2
	}
	ps := specs[*prop]
	if ps == nil {
		fmt.Fprintln(os.Stderr, "no such property in checks.json:", *prop)
		return 2
	}
	pkgSet := map[string]bool{}
	var pkgDirs []string
	for _, h := range ps.Harnesses {
		if !pkgSet[h.Pkg] {
			pkgSet[h.Pkg] = true
			pkgDirs = append(pkgDirs, h.Pkg)
		}
	}
	ld, err := loadProgram(pkgDirs)
	if err != nil {
		fmt.Fprintln(os.Stderr, "load:", err)
		fmt.Printf("INCONCLUSIVE property=%s reason=load-failed\n", *prop)
		return 2
	}
	cfg := defaultConfig()
	cfg.SolverKind = *solver
	if *tier == "thorough" {
		cfg.TraceSamples = 8
	}
	r := &Runner{ld: ld, cfg: cfg, workers: *workers}
	var results []*HarnessResult
	for _, h := range ps.Harnesses {
		if *only != "" && !strings.Contains(h.Fn, *only) {
			continue
		}
		if h.Tier == "thorough" && *tier != "thorough" {
			continue
		}
		hr := r.RunHarness(h, *tier)
		printHarnessResult(hr, false)
		results = append(results, hr)
	}
	return finish(ps, *tier, seed, results, ld, t0, *noReplay)
}
