package main

import (
	"fmt"
	"go/constant"
	"go/token"
	"go/types"
	"slices"
	"strings"

	"golang.org/x/tools/go/ssa"
)

type Config struct {
	MaxAlloc      int // largest concrete allocation (elements)
	MaxSymAlloc   int // backing size for make() with symbolic length
	MaxConcretize int
	Unwind        int // symbolic loop decisions per frame/branch
	MaxSteps      int
	SolverKind    string
	TimeoutMs     int
	MaxPaths      int
	Trace         bool
	TraceSamples  int
}

type deferred struct {
	fn    Value
	args  []Value
	instr *ssa.Defer
	tail  *deferred
}

type frame struct {
	in        *Interp
	caller    *frame
	fn        *ssa.Function
	block     *ssa.BasicBlock
	prevBlock *ssa.BasicBlock
	selRetry  bool
	env       map[ssa.Value]Value
	locals    []Value
	defers    *deferred
	result    Value
	panicking bool
	panicVal  interface{}
	phitemps  []Value
	symIf     map[*ssa.If]int
	curInstr  ssa.Instruction
}

type Interp struct {
	prog        *ssa.Program
	tc          *TermCtx
	solver      *Solver
	cfg         *Config
	globals     map[*ssa.Global]*Value
	initRun     map[*ssa.Package]bool
	path        *PathState
	harness     string
	runtimeErrT types.Type
	top         *frame
	queries     int
	lastModel   map[string]uint64
	// statistics
	instrs         int
	unknownAsserts int
	resolved       int
	droppedSends   int
	usedInternal   bool
	funcsSeen      map[string]bool
	stubsUsed      map[string]bool
	// environment model
	env          *EnvState
	wraps        map[*opaqueErr][]Value
	params       map[string]int
	initNotes    []string
	inInit       int
	lossyStrings int
	recovered    []*GoPanic
}

type nativeFn struct{ f stubFn }

func (fr *frame) get(key ssa.Value) Value {
	switch key := key.(type) {
	case nil:
		return nil
	case *ssa.Function:
		return key
	case *ssa.Builtin:
		return key
	case *ssa.Const:
		return fr.in.constValue(key)
	case *ssa.Global:
		return fr.in.global(key)
	}
	if r, ok := fr.env[key]; ok {
		return r
	}
	panic(unsupported(fmt.Sprintf("get: no value for %T %s in %s", key, key.Name(), fr.fn)))
}

func (in *Interp) global(g *ssa.Global) *Value {
	if p, ok := in.globals[g]; ok {
		return p
	}
	var cell Value
	t := g.Type().(*types.Pointer).Elem()
	cell = in.zero(t)
	// error-typed globals of packages whose init was not executed get a distinct opaque value
	if g.Pkg != nil && !in.initRun[g.Pkg] {
		if types.Identical(t, types.Universe.Lookup("error").Type()) {
			oe := &opaqueErr{Name: g.Pkg.Pkg.Path() + "." + g.Name()}
			cell = Iface{T: &opaqueType{"error"}, V: oe}
		}
	}
	p := &cell
	in.globals[g] = p
	return p
}

func (in *Interp) constValue(c *ssa.Const) Value {
	if c.Value == nil {
		return in.zero(c.Type())
	}
	t := c.Type()
	if tp, ok := t.(*types.TypeParam); ok {
		_ = tp
		panic(unsupported("const of type param"))
	}
	b, ok := t.Underlying().(*types.Basic)
	if !ok {
		panic(unsupported("const of type " + t.String()))
	}
	switch {
	case b.Info()&types.IsBoolean != 0:
		return in.tc.Bool(constant.BoolVal(c.Value))
	case b.Info()&types.IsString != 0:
		if c.Value.Kind() == constant.String {
			return constant.StringVal(c.Value)
		}
		return string(rune(c.Int64()))
	case b.Info()&types.IsInteger != 0:
		w := in.widthOf(b)
		if isSigned(b) {
			return in.tc.Const(uint64(c.Int64()), w)
		}
		return in.tc.Const(c.Uint64(), w)
	case b.Info()&types.IsFloat != 0:
		return FloatV{F: c.Float64()}
	case b.Kind() == types.UnsafePointer:
		return (*Value)(nil)
	}
	panic(unsupported("const kind " + t.String()))
}

func (in *Interp) curSite() string {
	fr := in.top
	if fr == nil {
		return "?"
	}
	return fr.fn.String()
}

func (in *Interp) stackTrace() []string {
	var s []string
	for fr := in.top; fr != nil && len(s) < 12; fr = fr.caller {
		pos := ""
		if fr.curInstr != nil && fr.curInstr.Pos().IsValid() {
			p := in.prog.Fset.Position(fr.curInstr.Pos())
			pos = fmt.Sprintf(" %s:%d", shortFile(p.Filename), p.Line)
		}
		s = append(s, fr.fn.String()+pos)
	}
	return s
}

func shortFile(f string) string {
	if i := strings.Index(f, "/repo/"); i >= 0 {
		return f[i+6:]
	}
	if i := strings.LastIndex(f, "/pkg/mod/"); i >= 0 {
		return f[i+9:]
	}
	return f
}

func (in *Interp) lookupMethod(typ types.Type, meth *types.Func) *ssa.Function {
	return in.prog.LookupMethod(typ, meth.Pkg(), meth.Name())
}

func (in *Interp) prepareCall(fr *frame, call *ssa.CallCommon) (fn Value, args []Value) {
	v := fr.get(call.Value)
	if call.Method == nil {
		fn = v
	} else {
		recv, ok := v.(Iface)
		if !ok {
			panic(unsupported(fmt.Sprintf("invoke on %T", v)))
		}
		if recv.T == nil {
			in.rtPanic("invalid memory address or nil pointer dereference")
		}
		if ot, ok := recv.T.(*opaqueType); ok {
			fn = &opaqueMethod{typ: ot, meth: call.Method, recv: recv}
		} else {
			f := in.lookupMethod(recv.T, call.Method)
			if f == nil {
				panic(unsupported(fmt.Sprintf("method %s not found on %s", call.Method, recv.T)))
			}
			fn = f
		}
		args = append(args, recv.V)
	}
	for _, a := range call.Args {
		args = append(args, fr.get(a))
	}
	return
}

type opaqueMethod struct {
	typ  *opaqueType
	meth *types.Func
	recv Iface
}

func (in *Interp) call(caller *frame, fn Value, args []Value, site ssa.Instruction) Value {
	switch fn := fn.(type) {
	case *ssa.Function:
		if fn == nil {
			in.rtPanic("invalid memory address or nil pointer dereference")
		}
		return in.callSSA(caller, fn, args, nil)
	case *Closure:
		if fn == nil {
			in.rtPanic("invalid memory address or nil pointer dereference")
		}
		return in.callSSA(caller, fn.Fn, args, fn.Env)
	case *ssa.Builtin:
		return in.callBuiltin(caller, fn, args, site)
	case *opaqueMethod:
		return in.callOpaqueMethod(fn, args[1:])
	case *nativeFn:
		return fn.f(in, caller, args)
	}
	panic(unsupported(fmt.Sprintf("cannot call %T", fn)))
}

func (in *Interp) callOpaqueMethod(m *opaqueMethod, args []Value) Value {
	sig := m.meth.Type().(*types.Signature)
	if st, ok := m.recv.V.(*md5State); ok {
		return in.callMD5Method(st, m.meth.Name(), args, sig)
	}
	if m.meth.Name() == "Error" || m.meth.Name() == "String" {
		if oe, ok := m.recv.V.(*opaqueErr); ok {
			return "opaque error " + oe.Name
		}
		return "opaque"
	}
	return in.zeroResults(sig)
}

func (in *Interp) zeroResults(sig *types.Signature) Value {
	switch sig.Results().Len() {
	case 0:
		return nil
	case 1:
		return in.zero(sig.Results().At(0).Type())
	}
	return in.zero(sig.Results())
}

func (in *Interp) callSSA(caller *frame, fn *ssa.Function, args []Value, env []Value) Value {
	name := fn.String()
	if stub := in.findStub(fn, name); stub != nil {
		in.stubsUsed[name] = true
		fr := &frame{in: in, caller: caller, fn: fn}
		return stub(in, fr, args)
	}
	if in.inInit > 0 && fn.Pkg != nil && fn.Name() == "init" && fn.Signature.Recv() == nil && fn == fn.Pkg.Func("init") {
		if !in.initRun[fn.Pkg] && initAllowed(fn.Pkg.Pkg.Path()) {
			in.runInit(fn.Pkg)
		}
		return nil
	}
	return in.execSSA(caller, fn, args, env)
}

func (in *Interp) execSSA(caller *frame, fn *ssa.Function, args []Value, env []Value) Value {
	name := fn.String()
	if fn.Pkg != nil {
		fn.Pkg.Build() // sync.Once inside: also waits for a concurrent build to finish
	} else if o := fn.Origin(); o != nil && o.Pkg != nil {
		o.Pkg.Build()
	}
	if fn.Blocks == nil {
		callers := ""
		for f, n := in.top, 0; f != nil && n < 4; f, n = f.caller, n+1 {
			callers += " <- " + f.fn.String()
		}
		panic(unsupported("no code for function: " + name + callers))
	}
	if fn.TypeParams().Len() > 0 && len(fn.TypeArgs()) == 0 {
		panic(unsupported("uninstantiated generic " + name))
	}
	if in.funcsSeen != nil && fn.Pkg != nil {
		in.funcsSeen[name] = true
	}
	fr := &frame{in: in, caller: caller, fn: fn}
	fr.env = make(map[ssa.Value]Value, 16)
	fr.block = fn.Blocks[0]
	fr.locals = make([]Value, len(fn.Locals))
	for i, l := range fn.Locals {
		fr.locals[i] = in.zero(l.Type().(*types.Pointer).Elem())
		fr.env[l] = &fr.locals[i]
	}
	for i, p := range fn.Params {
		fr.env[p] = args[i]
	}
	for i, fv := range fn.FreeVars {
		fr.env[fv] = env[i]
	}
	saveTop := in.top
	in.top = fr
	depth := 0
	for f := fr; f != nil; f = f.caller {
		depth++
	}
	if depth > 400 {
		panic(pathEnd{EndSteps, "call depth exceeded (unbounded recursion?)"})
	}
	for fr.block != nil {
		in.runFrame(fr)
	}
	in.top = saveTop
	return fr.result
}

func (in *Interp) runFrame(fr *frame) {
	defer func() {
		if fr.block == nil {
			return
		}
		r := recover()
		if pe, ok := r.(pathEnd); ok {
			panic(pe) // abandon path: no defers
		}
		if _, ok := r.(*GoPanic); !ok {
			panic(r) // engine bug: propagate
		}
		fr.panicking = true
		fr.panicVal = r
		in.top = fr
		fr.runDefers()
		fr.block = fr.fn.Recover
		if fr.block == nil {
			// recovered without named results: return zero
			fr.result = in.zeroResults(fr.fn.Signature)
		}
	}()
	for {
		in.executePhis(fr)
		for _, instr := range fr.block.Instrs {
			if _, ok := instr.(*ssa.Phi); ok {
				continue
			}
			fr.curInstr = instr
			in.path.steps++
			in.instrs++
			if in.path.steps > in.cfg.MaxSteps {
				panic(pathEnd{EndSteps, "step limit exceeded in " + fr.fn.String()})
			}
			switch in.visitInstr(fr, instr) {
			case kReturn:
				return
			case kJump:
			}
			if fr.block == nil {
				return
			}
		}
	}
}

func (in *Interp) executePhis(fr *frame) {
	if len(fr.block.Instrs) == 0 {
		return
	}
	if _, ok := fr.block.Instrs[0].(*ssa.Phi); !ok {
		return
	}
	predIndex := slices.Index(fr.block.Preds, fr.prevBlock)
	fr.phitemps = fr.phitemps[:0]
	for _, instr := range fr.block.Instrs {
		phi, ok := instr.(*ssa.Phi)
		if !ok {
			break
		}
		fr.phitemps = append(fr.phitemps, fr.get(phi.Edges[predIndex]))
	}
	for i, instr := range fr.block.Instrs {
		phi, ok := instr.(*ssa.Phi)
		if !ok {
			break
		}
		fr.env[phi] = fr.phitemps[i]
	}
}

func (fr *frame) runDefers() {
	in := fr.in
	for d := fr.defers; d != nil; d = d.tail {
		fr.runDefer(d)
	}
	fr.defers = nil
	if fr.panicking {
		_ = in
		panic(fr.panicVal)
	}
}

func (fr *frame) runDefer(d *deferred) {
	ok := false
	defer func() {
		if !ok {
			r := recover()
			if pe, isEnd := r.(pathEnd); isEnd {
				panic(pe)
			}
			if _, isGo := r.(*GoPanic); !isGo {
				panic(r)
			}
			fr.panicking = true
			fr.panicVal = r
		}
	}()
	fr.in.call(fr, d.fn, d.args, d.instr)
	ok = true
}

type continuation int

const (
	kNext continuation = iota
	kReturn
	kJump
)

func (in *Interp) visitInstr(fr *frame, instr ssa.Instruction) continuation {
	switch instr := instr.(type) {
	case *ssa.DebugRef:
	case *ssa.UnOp:
		fr.env[instr] = in.unop(instr, fr.get(instr.X))
	case *ssa.BinOp:
		fr.env[instr] = in.binop(instr.Op, instr.X.Type(), fr.get(instr.X), fr.get(instr.Y), instr.Y.Type())
	case *ssa.Call:
		fn, args := in.prepareCall(fr, &instr.Call)
		fr.env[instr] = in.call(fr, fn, args, instr)
		in.top = fr
	case *ssa.ChangeInterface:
		fr.env[instr] = fr.get(instr.X)
	case *ssa.ChangeType:
		fr.env[instr] = fr.get(instr.X)
	case *ssa.Convert:
		fr.env[instr] = in.conv(instr.Type(), instr.X.Type(), fr.get(instr.X))
	case *ssa.SliceToArrayPointer:
		s := fr.get(instr.X).(SliceV)
		at := instr.Type().Underlying().(*types.Pointer).Elem().Underlying().(*types.Array)
		in.check(in.tc.Cmp(OpULe, in.k64(at.Len()), s.N), "cannot convert slice to array pointer: length too short")
		off := int(in.concretize(s.Off, "slice to array pointer"))
		var cell Value = Array(s.Arr[off : off+int(at.Len()) : off+int(at.Len())])
		fr.env[instr] = &cell
	case *ssa.MakeInterface:
		fr.env[instr] = Iface{T: instr.X.Type(), V: fr.get(instr.X)}
	case *ssa.Extract:
		fr.env[instr] = fr.get(instr.Tuple).(Tuple)[instr.Index]
	case *ssa.Slice:
		fr.env[instr] = in.sliceOp(instr, fr.get(instr.X), fr.get(instr.Low), fr.get(instr.High), fr.get(instr.Max))
	case *ssa.Return:
		switch len(instr.Results) {
		case 0:
		case 1:
			fr.result = fr.get(instr.Results[0])
		default:
			var res Tuple
			for _, r := range instr.Results {
				res = append(res, fr.get(r))
			}
			fr.result = res
		}
		fr.block = nil
		return kReturn
	case *ssa.RunDefers:
		fr.runDefers()
		in.top = fr
	case *ssa.Panic:
		v := fr.get(instr.X)
		panic(&GoPanic{Val: v, Msg: in.panicString(v), Site: fr.fn.String(), Stack: in.stackTrace()})
	case *ssa.Send:
		in.chanSend(fr.get(instr.Chan), fr.get(instr.X))
	case *ssa.Store:
		in.store(instr.Val.Type(), fr.get(instr.Addr), fr.get(instr.Val))
	case *ssa.If:
		c := in.asTerm(fr.get(instr.Cond))
		if !c.IsConst() {
			if fr.symIf == nil {
				fr.symIf = map[*ssa.If]int{}
			}
			fr.symIf[instr]++
			if fr.symIf[instr] > in.cfg.Unwind {
				panic(pathEnd{EndUnwind, fmt.Sprintf("unwind bound %d exceeded at %s", in.cfg.Unwind, in.posOf(instr))})
			}
		}
		succ := 1
		if in.decide(c) {
			succ = 0
		}
		fr.prevBlock, fr.block = fr.block, fr.block.Succs[succ]
		return kJump
	case *ssa.Jump:
		fr.prevBlock, fr.block = fr.block, fr.block.Succs[0]
		return kJump
	case *ssa.Defer:
		fn, args := in.prepareCall(fr, &instr.Call)
		defers := &fr.defers
		if instr.DeferStack != nil {
			if into := fr.get(instr.DeferStack); into != nil {
				defers = into.(**deferred)
			}
		}
		*defers = &deferred{fn: fn, args: args, instr: instr, tail: *defers}
	case *ssa.Go:
		fn, args := in.prepareCall(fr, &instr.Call)
		in.env.spawn(in, fn, args, instr)
	case *ssa.MakeChan:
		sz := in.concretize(in.to64(fr.get(instr.Size), instr.Size.Type()), "chan size")
		fr.env[instr] = &ChanV{Cap: int(sz), Elem: instr.Type().Underlying().(*types.Chan).Elem()}
	case *ssa.Alloc:
		var addr *Value
		if instr.Heap {
			addr = new(Value)
			fr.env[instr] = addr
		} else {
			addr = fr.env[instr].(*Value)
		}
		*addr = in.zero(instr.Type().(*types.Pointer).Elem())
	case *ssa.MakeSlice:
		fr.env[instr] = in.makeSlice(instr, fr.get(instr.Len), fr.get(instr.Cap))
	case *ssa.MakeMap:
		fr.env[instr] = &MapV{Typ: instr.Type().Underlying().(*types.Map)}
	case *ssa.Range:
		fr.env[instr] = in.rangeIter(fr.get(instr.X))
	case *ssa.Next:
		fr.env[instr] = fr.get(instr.Iter).(iterator).next(in)
	case *ssa.FieldAddr:
		x := fr.get(instr.X)
		p, ok := x.(*Value)
		if !ok {
			panic(unsupported(fmt.Sprintf("FieldAddr on %T", x)))
		}
		if p == nil {
			in.rtPanic("invalid memory address or nil pointer dereference")
		}
		s, ok := (*p).(Struct)
		if !ok {
			panic(unsupported(fmt.Sprintf("FieldAddr: cell holds %T in %s", *p, fr.fn)))
		}
		fr.env[instr] = &s[instr.Field]
	case *ssa.Field:
		fr.env[instr] = copyVal(fr.get(instr.X).(Struct)[instr.Field])
	case *ssa.IndexAddr:
		fr.env[instr] = in.indexAddr(instr, fr.get(instr.X), fr.get(instr.Index))
	case *ssa.Index:
		fr.env[instr] = in.index(instr, fr.get(instr.X), fr.get(instr.Index))
	case *ssa.Lookup:
		fr.env[instr] = in.mapLookup(instr, fr.get(instr.X), fr.get(instr.Index))
	case *ssa.MapUpdate:
		m, _ := fr.get(instr.Map).(*MapV)
		in.mapUpdate(m, fr.get(instr.Key), fr.get(instr.Value))
	case *ssa.TypeAssert:
		fr.env[instr] = in.typeAssert(instr, fr.get(instr.X).(Iface))
	case *ssa.MakeClosure:
		var bindings []Value
		for _, b := range instr.Bindings {
			bindings = append(bindings, fr.get(b))
		}
		fr.env[instr] = &Closure{Fn: instr.Fn.(*ssa.Function), Env: bindings}
	case *ssa.Select:
		fr.env[instr] = in.selectOp(fr, instr)
	default:
		panic(unsupported(fmt.Sprintf("instruction %T", instr)))
	}
	return kNext
}

func (in *Interp) posOf(instr ssa.Instruction) string {
	if instr.Pos().IsValid() {
		p := in.prog.Fset.Position(instr.Pos())
		return fmt.Sprintf("%s:%d", shortFile(p.Filename), p.Line)
	}
	if instr.Parent() != nil {
		return instr.Parent().String()
	}
	return "?"
}

func (in *Interp) panicString(v Value) string {
	switch x := v.(type) {
	case Iface:
		switch s := x.V.(type) {
		case string:
			return s
		case *opaqueErr:
			return "error " + s.Name
		}
		if x.T != nil {
			// error values: try the Error method concretely is too deep; show type
			if p, ok := x.V.(*Value); ok && p != nil {
				if st, ok := (*p).(Struct); ok && len(st) > 0 {
					if s, ok := st[0].(string); ok {
						return s
					}
				}
			}
			return "panic(" + x.T.String() + ")"
		}
		return "panic(nil)"
	case string:
		return x
	}
	return fmt.Sprintf("panic(%T)", v)
}

func (in *Interp) selectOp(fr *frame, instr *ssa.Select) Value {
	// ready cases in order; otherwise default; blocking with nothing ready ends the path
	chosen := -1
	var recv Value
	recvOk := false
	order := make([]int, len(instr.States))
	for i := range order {
		order[i] = i
	}
	if in.env.selectNondet {
		// Go chooses uniformly among the ready cases: fork over which ready case is taken
		var ready []int
		for i, st := range instr.States {
			ch, _ := fr.get(st.Chan).(*ChanV)
			if ch == nil {
				continue
			}
			if st.Dir == types.RecvOnly && (len(ch.Buf) > 0 || ch.Closed) || st.Dir != types.RecvOnly && (ch.Closed || len(ch.Buf) < ch.Cap) {
				ready = append(ready, i)
			}
		}
		if len(ready) > 1 {
			order = []int{ready[in.pick("select", len(ready))]}
		}
	}
	for _, i := range order {
		st := instr.States[i]
		ch, _ := fr.get(st.Chan).(*ChanV)
		if ch == nil {
			continue
		}
		if st.Dir == types.RecvOnly {
			if len(ch.Buf) > 0 {
				chosen, recv, recvOk = i, ch.Buf[0], true
				ch.Buf = ch.Buf[1:]
				break
			}
			if ch.Closed {
				chosen, recv, recvOk = i, in.zero(ch.Elem), false
				break
			}
		} else {
			if ch.Closed {
				panic(&GoPanic{Msg: "send on closed channel", Runtime: true, Site: in.curSite(), Val: Iface{T: in.runtimeErrT, V: "send on closed channel"}})
			}
			if len(ch.Buf) < ch.Cap {
				ch.Buf = append(ch.Buf, copyVal(fr.get(st.Send)))
				chosen = i
				break
			}
		}
	}
	if chosen < 0 && instr.Blocking && len(in.env.pending) > 0 && !fr.selRetry {
		// nothing ready: let the other goroutines run, then look again
		fr.selRetry = true
		in.runPending()
		v := in.selectOp(fr, instr)
		fr.selRetry = false
		return v
	}
	if chosen < 0 && instr.Blocking {
		panic(pathEnd{EndBlocked, "select would block at " + in.posOf(instr)})
	}
	r := Tuple{in.k64(int64(chosen)), in.tc.Bool(recvOk)}
	for i, st := range instr.States {
		if st.Dir == types.RecvOnly {
			if i == chosen && recvOk {
				r = append(r, recv)
			} else {
				r = append(r, in.zero(st.Chan.Type().Underlying().(*types.Chan).Elem()))
			}
		}
	}
	return r
}

func (in *Interp) callBuiltin(caller *frame, fn *ssa.Builtin, args []Value, site ssa.Instruction) Value {
	tc := in.tc
	switch fn.Name() {
	case "append":
		return in.builtinAppend(args, fn.Type().(*types.Signature))
	case "copy":
		return in.builtinCopy(args)
	case "close":
		ch, _ := args[0].(*ChanV)
		if ch == nil {
			in.rtPanic("close of nil channel")
		}
		if ch.Closed {
			in.rtPanic("close of closed channel")
		}
		ch.Closed = true
		return nil
	case "delete":
		m, _ := args[0].(*MapV)
		in.mapDelete(m, args[1])
		return nil
	case "clear":
		switch x := args[0].(type) {
		case *MapV:
			if x != nil {
				x.E = nil
			}
		case SliceV:
			n := int(in.concretize(x.N, "clear length"))
			if n > 0 {
				et := fn.Type().(*types.Signature).Params().At(0).Type().Underlying().(*types.Slice).Elem()
				for i := 0; i < n; i++ {
					in.upd(x.Arr, in.tc.Bin(OpAdd, x.Off, in.k64(int64(i))), tTrue, in.zero(et))
				}
			}
		default:
			panic(unsupported("clear of unknown kind"))
		}
		return nil
	case "print", "println":
		return nil
	case "len":
		switch x := args[0].(type) {
		case string:
			return in.k64(int64(len(x)))
		case *SymStr:
			return in.k64(int64(len(x.B)))
		case Array:
			return in.k64(int64(len(x)))
		case *Value:
			return in.k64(int64(len((*x).(Array))))
		case SliceV:
			return x.N
		case *MapV:
			if x == nil {
				return in.k64(0)
			}
			return in.k64(int64(len(x.E)))
		case *ChanV:
			if x == nil {
				return in.k64(0)
			}
			return in.k64(int64(len(x.Buf)))
		}
	case "cap":
		switch x := args[0].(type) {
		case Array:
			return in.k64(int64(len(x)))
		case *Value:
			return in.k64(int64(len((*x).(Array))))
		case SliceV:
			return x.C
		case *ChanV:
			if x == nil {
				return in.k64(0)
			}
			return in.k64(int64(x.Cap))
		}
	case "min", "max":
		sig := fn.Type().(*types.Signature)
		t := sig.Params().At(0).Type()
		r := args[0]
		for _, a := range args[1:] {
			if rt, ok := r.(*Term); ok {
				at := a.(*Term)
				op := OpULt
				if isSigned(t) {
					op = OpSLt
				}
				var c *Term
				if fn.Name() == "min" {
					c = tc.Cmp(op, at, rt)
				} else {
					c = tc.Cmp(op, rt, at)
				}
				r = tc.Ite(c, at, rt)
			} else {
				panic(unsupported("min/max on non-integers"))
			}
		}
		return r
	case "panic":
		panic(&GoPanic{Val: args[0], Msg: in.panicString(args[0]), Site: in.curSite(), Stack: in.stackTrace()})
	case "recover":
		return in.doRecover(caller)
	case "ssa:wrapnilchk":
		if isNilPtr(args[0]) {
			in.rtPanic("value method called using nil pointer")
		}
		return args[0]
	case "ssa:deferstack":
		return &caller.defers
	}
	panic(unsupported(fmt.Sprintf("builtin %s(%T)", fn.Name(), args[0])))
}

func (in *Interp) doRecover(caller *frame) Value {
	if caller != nil && !caller.panicking && caller.caller != nil && caller.caller.panicking {
		caller.caller.panicking = false
		p := caller.caller.panicVal
		caller.caller.panicVal = nil
		if gp, ok := p.(*GoPanic); ok {
			in.recovered = append(in.recovered, gp)
			if iv, ok := gp.Val.(Iface); ok {
				return iv
			}
			return Iface{T: types.Typ[types.String], V: gp.Msg}
		}
	}
	return Iface{}
}

var _ = token.NoPos
