package main

import (
	"fmt"
	"go/token"
	"go/types"
	"math"
	"strings"
	"unicode/utf8"

	"golang.org/x/tools/go/ssa"
)

// GoPanic is a panic of the interpreted program.
type GoPanic struct {
	Val     Value
	Msg     string
	Runtime bool
	Site    string
	Stack   []string
}

func (in *Interp) rtPanic(msg string) {
	panic(&GoPanic{Val: Iface{T: in.runtimeErrT, V: "runtime error: " + msg}, Msg: "runtime error: " + msg, Runtime: true, Site: in.curSite(), Stack: in.stackTrace()})
}

// check forks on an implicit runtime check; on the failing side the program panics.
func (in *Interp) check(ok *Term, msg string) {
	if !in.decide(ok) {
		in.rtPanic(msg)
	}
}

func (in *Interp) asTerm(v Value) *Term {
	t, ok := v.(*Term)
	if !ok {
		panic(unsupported(fmt.Sprintf("expected scalar, got %T", v)))
	}
	return t
}

// to64 converts an integer value of static type t to a 64-bit term (sign- or zero-extended).
func (in *Interp) to64(v Value, t types.Type) *Term {
	x := in.asTerm(v)
	return in.tc.Resize(x, 64, isSigned(t))
}

func (in *Interp) iteVal(c *Term, a, b Value) Value {
	if c.IsTrue() {
		return a
	}
	if c.IsFalse() {
		return b
	}
	switch x := a.(type) {
	case *Term:
		return in.tc.Ite(c, x, b.(*Term))
	case Struct:
		y := b.(Struct)
		r := make(Struct, len(x))
		for i := range x {
			r[i] = in.iteVal(c, x[i], y[i])
		}
		return r
	case Array:
		y := b.(Array)
		r := make(Array, len(x))
		for i := range x {
			r[i] = in.iteVal(c, x[i], y[i])
		}
		return r
	}
	if in.decide(c) {
		return a
	}
	return b
}

// sel reads arr[idx] for a possibly symbolic idx (caller has established bounds).
func (in *Interp) sel(arr []Value, idx *Term) Value {
	if idx.IsConst() {
		if idx.V >= uint64(len(arr)) {
			panic(unsupported(fmt.Sprintf("internal: sel index %d out of backing %d", idx.V, len(arr))))
		}
		return arr[idx.V]
	}
	if len(arr) == 0 {
		panic(pathEnd{EndInfeasible, "select from empty array"})
	}
	lo, hi := in.idxRange(idx, len(arr))
	r := arr[hi-1]
	for i := hi - 2; i >= lo; i-- {
		r = in.iteVal(in.tc.Eq(idx, in.k64(int64(i))), arr[i], r)
	}
	return r
}

// idxRange gives cheap syntactic bounds [lo,hi) for a symbolic index term.
func (in *Interp) idxRange(idx *Term, n int) (int, int) {
	lo, hi := 0, n
	// base + const with zero-extended base of small width
	if idx.Op == OpAdd && idx.A[1].IsConst() && idx.A[0].Op == OpZExt {
		k := idx.A[1].V
		w := idx.A[0].A[0].W
		if k < uint64(n) && w < 32 {
			lo = int(k)
			if m := k + mask(w) + 1; m < uint64(n) {
				hi = int(m)
			}
		}
	} else if idx.Op == OpZExt {
		w := idx.A[0].W
		if w < 32 && mask(w)+1 < uint64(n) {
			hi = int(mask(w) + 1)
		}
	}
	return lo, hi
}

// upd performs arr[idx] = v under guard.
func (in *Interp) upd(arr []Value, idx *Term, guard *Term, v Value) {
	if guard.IsFalse() {
		return
	}
	if idx.IsConst() {
		if idx.V >= uint64(len(arr)) {
			panic(unsupported("internal: upd index out of backing"))
		}
		arr[idx.V] = in.iteVal(guard, v, arr[idx.V])
		return
	}
	lo, hi := in.idxRange(idx, len(arr))
	for i := lo; i < hi; i++ {
		c := in.tc.And(guard, in.tc.Eq(idx, in.k64(int64(i))))
		arr[i] = in.iteVal(c, v, arr[i])
	}
}

func (in *Interp) load(t types.Type, p Value) Value {
	switch p := p.(type) {
	case *Value:
		if p == nil {
			in.rtPanic("invalid memory address or nil pointer dereference")
		}
		return copyVal(*p)
	case ElemPtr:
		return in.sel(p.Arr, p.Idx)
	}
	panic(unsupported(fmt.Sprintf("load through %T", p)))
}

func (in *Interp) store(t types.Type, p Value, v Value) {
	switch p := p.(type) {
	case *Value:
		if p == nil {
			in.rtPanic("invalid memory address or nil pointer dereference")
		}
		*p = copyVal(v)
		return
	case ElemPtr:
		in.upd(p.Arr, p.Idx, tTrue, v)
		return
	}
	panic(unsupported(fmt.Sprintf("store through %T", p)))
}

func (in *Interp) unop(instr *ssa.UnOp, x Value) Value {
	switch instr.Op {
	case token.MUL:
		return in.load(instr.Type(), x)
	case token.NOT:
		return in.tc.Not(in.asTerm(x))
	case token.SUB:
		if f, ok := x.(FloatV); ok {
			return FloatV{F: -f.F, Sym: f.Sym}
		}
		return in.tc.Neg(in.asTerm(x))
	case token.XOR:
		return in.tc.BNot(in.asTerm(x))
	case token.ARROW:
		return in.chanRecv(x, instr.CommaOk, instr.Type())
	}
	panic(unsupported("unop " + instr.Op.String()))
}

func (in *Interp) binop(op token.Token, t types.Type, x, y Value, yt types.Type) Value {
	tc := in.tc
	switch x := x.(type) {
	case *Term:
		yT, ok := y.(*Term)
		if !ok {
			panic(unsupported(fmt.Sprintf("binop %s on %T,%T", op, x, y)))
		}
		if x.W == 0 { // bool
			switch op {
			case token.EQL:
				return tc.Eq(x, yT)
			case token.NEQ:
				return tc.Ne(x, yT)
			case token.LAND, token.AND:
				return tc.And(x, yT)
			case token.LOR, token.OR:
				return tc.Or(x, yT)
			}
			panic(unsupported("bool binop " + op.String()))
		}
		signed := isSigned(t)
		switch op {
		case token.ADD:
			return tc.Bin(OpAdd, x, yT)
		case token.SUB:
			return tc.Bin(OpSub, x, yT)
		case token.MUL:
			return tc.Bin(OpMul, x, yT)
		case token.QUO, token.REM:
			in.check(tc.Ne(yT, tc.Const(0, yT.W)), "integer divide by zero")
			o := OpUDiv
			switch {
			case op == token.QUO && signed:
				o = OpSDiv
			case op == token.REM && signed:
				o = OpSRem
			case op == token.REM:
				o = OpURem
			}
			return tc.Bin(o, x, yT)
		case token.AND:
			return tc.Bin(OpBAnd, x, yT)
		case token.OR:
			return tc.Bin(OpBOr, x, yT)
		case token.XOR:
			return tc.Bin(OpBXor, x, yT)
		case token.AND_NOT:
			return tc.Bin(OpBAnd, x, tc.BNot(yT))
		case token.SHL, token.SHR:
			if isSigned(yt) {
				in.check(tc.Cmp(OpSLe, tc.Const(0, yT.W), yT), "negative shift amount")
			}
			w := x.W
			var big *Term = tFalse
			var sh *Term
			if yT.W > w {
				big = tc.Cmp(OpULe, tc.Const(uint64(w), yT.W), yT)
				sh = tc.Trunc(yT, w)
			} else {
				sh = tc.ZExt(yT, w)
				if w < 64 || true {
					big = tc.Cmp(OpULe, tc.Const(uint64(w), w), sh)
					if uint64(w) > mask(w) {
						big = tFalse
					}
				}
			}
			switch {
			case op == token.SHL:
				return tc.Ite(big, tc.Const(0, w), tc.Bin(OpShl, x, sh))
			case signed:
				// arithmetic: saturates to sign
				return tc.Ite(big, tc.Bin(OpAShr, x, tc.Const(uint64(w-1), w)), tc.Bin(OpAShr, x, sh))
			default:
				return tc.Ite(big, tc.Const(0, w), tc.Bin(OpLShr, x, sh))
			}
		case token.EQL:
			return tc.Eq(x, yT)
		case token.NEQ:
			return tc.Ne(x, yT)
		case token.LSS:
			if signed {
				return tc.Cmp(OpSLt, x, yT)
			}
			return tc.Cmp(OpULt, x, yT)
		case token.LEQ:
			if signed {
				return tc.Cmp(OpSLe, x, yT)
			}
			return tc.Cmp(OpULe, x, yT)
		case token.GTR:
			if signed {
				return tc.Cmp(OpSLt, yT, x)
			}
			return tc.Cmp(OpULt, yT, x)
		case token.GEQ:
			if signed {
				return tc.Cmp(OpSLe, yT, x)
			}
			return tc.Cmp(OpULe, yT, x)
		}
	case FloatV:
		yf := y.(FloatV)
		if x.Sym || yf.Sym {
			switch op {
			case token.ADD, token.SUB, token.MUL, token.QUO:
				return FloatV{Sym: true}
			default:
				return in.freshBool("fcmp")
			}
		}
		switch op {
		case token.ADD:
			return FloatV{F: x.F + yf.F}
		case token.SUB:
			return FloatV{F: x.F - yf.F}
		case token.MUL:
			return FloatV{F: x.F * yf.F}
		case token.QUO:
			return FloatV{F: x.F / yf.F}
		case token.EQL:
			return tc.Bool(x.F == yf.F)
		case token.NEQ:
			return tc.Bool(x.F != yf.F)
		case token.LSS:
			return tc.Bool(x.F < yf.F)
		case token.LEQ:
			return tc.Bool(x.F <= yf.F)
		case token.GTR:
			return tc.Bool(x.F > yf.F)
		case token.GEQ:
			return tc.Bool(x.F >= yf.F)
		}
	case string:
		switch yv := y.(type) {
		case string:
			switch op {
			case token.ADD:
				return x + yv
			case token.EQL:
				return tc.Bool(x == yv)
			case token.NEQ:
				return tc.Bool(x != yv)
			case token.LSS:
				return tc.Bool(x < yv)
			case token.LEQ:
				return tc.Bool(x <= yv)
			case token.GTR:
				return tc.Bool(x > yv)
			case token.GEQ:
				return tc.Bool(x >= yv)
			}
		case *SymStr:
			return in.symStrBinop(op, in.toSymStr(x), yv)
		}
	case *SymStr:
		return in.symStrBinop(op, x, in.toSymStr(y))
	}
	// generic equality
	switch op {
	case token.EQL:
		return in.eqGeneric(x, y)
	case token.NEQ:
		return in.tc.Not(in.eqGeneric(x, y))
	}
	panic(unsupported(fmt.Sprintf("binop %s on %T", op, x)))
}

func (in *Interp) eqGeneric(x, y Value) *Term {
	// slices, maps, funcs compare only against nil
	switch xv := x.(type) {
	case SliceV:
		ys := y.(SliceV)
		if ys.Arr == nil {
			return in.tc.Bool(xv.Arr == nil)
		}
		if xv.Arr == nil {
			return in.tc.Bool(ys.Arr == nil)
		}
		panic(unsupported("slice == slice"))
	case *Closure:
		if f, ok := y.(*ssa.Function); ok && f == nil {
			return in.tc.Bool(xv == nil)
		}
	case *ssa.Function:
		if _, ok := y.(*Closure); ok {
			return in.tc.Bool(false || (xv == nil && y.(*Closure) == nil))
		}
	}
	return in.equals(x, y)
}

func (in *Interp) toSymStr(v Value) *SymStr {
	switch v := v.(type) {
	case *SymStr:
		return v
	case string:
		s := &SymStr{}
		for i := 0; i < len(v); i++ {
			s.B = append(s.B, in.tc.Const(uint64(v[i]), 8))
		}
		return s
	}
	panic(unsupported(fmt.Sprintf("toSymStr(%T)", v)))
}

func (in *Interp) symStrBinop(op token.Token, x, y *SymStr) Value {
	switch op {
	case token.ADD:
		return &SymStr{B: append(append([]*Term(nil), x.B...), y.B...)}
	case token.EQL:
		return in.equals(x, y)
	case token.NEQ:
		return in.tc.Not(in.equals(x, y))
	}
	panic(unsupported("symbolic string op " + op.String()))
}

func normStr(s *SymStr) Value {
	for _, b := range s.B {
		if !b.IsConst() {
			return s
		}
	}
	bs := make([]byte, len(s.B))
	for i, b := range s.B {
		bs[i] = byte(b.V)
	}
	return string(bs)
}

func (in *Interp) conv(tdst, tsrc types.Type, x Value) Value {
	ud, us := tdst.Underlying(), tsrc.Underlying()
	tc := in.tc
	switch us := us.(type) {
	case *types.Pointer, *types.Signature, *types.Chan, *types.Map, *types.Struct, *types.Array, *types.Interface:
		return x
	case *types.Slice:
		// []byte -> string, []rune -> string
		if db, ok := ud.(*types.Basic); ok && db.Info()&types.IsString != 0 {
			eb, _ := us.Elem().Underlying().(*types.Basic)
			if eb == nil || eb.Kind() != types.Uint8 {
				panic(unsupported("[]rune to string"))
			}
			s := x.(SliceV)
			n := int(in.concretize(s.N, "string(bytes) length"))
			r := &SymStr{}
			for i := 0; i < n; i++ {
				r.B = append(r.B, in.asTerm(in.sel(s.Arr, tc.Bin(OpAdd, s.Off, in.k64(int64(i))))))
			}
			return normStr(r)
		}
		return x
	case *types.Basic:
		if db, ok := ud.(*types.Basic); ok {
			switch {
			case us.Info()&types.IsInteger != 0 && db.Info()&types.IsInteger != 0:
				return tc.Resize(in.asTerm(x), in.widthOf(db), isSigned(us))
			case us.Info()&types.IsInteger != 0 && db.Info()&types.IsFloat != 0:
				t := in.asTerm(x)
				if t.IsConst() {
					if isSigned(us) {
						return FloatV{F: float64(signExt(t.V, t.W))}
					}
					return FloatV{F: float64(t.V)}
				}
				return FloatV{Sym: true}
			case us.Info()&types.IsFloat != 0 && db.Info()&types.IsInteger != 0:
				f := x.(FloatV)
				w := in.widthOf(db)
				if f.Sym || math.IsNaN(f.F) || math.IsInf(f.F, 0) {
					return in.freshInternal("f2i", w)
				}
				if isSigned(db) {
					return tc.Const(uint64(int64(f.F)), w)
				}
				return tc.Const(uint64(f.F), w)
			case us.Info()&types.IsFloat != 0 && db.Info()&types.IsFloat != 0:
				f := x.(FloatV)
				if db.Kind() == types.Float32 && !f.Sym {
					return FloatV{F: float64(float32(f.F))}
				}
				return f
			case us.Info()&types.IsInteger != 0 && db.Info()&types.IsString != 0:
				t := in.asTerm(x)
				v := in.concretize(t, "string(rune)")
				return string(rune(signExt(v, t.W)))
			case us.Info()&types.IsString != 0 && db.Info()&types.IsString != 0:
				return x
			case us.Kind() == types.UnsafePointer || db.Kind() == types.UnsafePointer:
				return x
			case us.Info()&types.IsBoolean != 0:
				return x
			}
		}
		if us.Kind() == types.UnsafePointer {
			return x
		}
		if ds, ok := ud.(*types.Slice); ok && us.Info()&types.IsString != 0 {
			eb, _ := ds.Elem().Underlying().(*types.Basic)
			if eb == nil || eb.Kind() != types.Uint8 {
				panic(unsupported("string to []rune"))
			}
			var bs []*Term
			switch s := x.(type) {
			case string:
				bs = in.toSymStr(s).B
			case *SymStr:
				bs = s.B
			}
			arr := make([]Value, len(bs))
			for i, b := range bs {
				arr[i] = b
			}
			if len(arr) == 0 {
				arr = make([]Value, 0, 1)
			}
			n := in.k64(int64(len(bs)))
			return SliceV{Arr: arr, Off: in.k64(0), N: n, C: n}
		}
		if _, ok := ud.(*types.Pointer); ok {
			return x
		}
	}
	panic(unsupported(fmt.Sprintf("conv %s -> %s", tsrc, tdst)))
}

// ---- slices ----

func (in *Interp) mkSliceConst(arr []Value) SliceV {
	n := in.k64(int64(len(arr)))
	if arr == nil {
		arr = []Value{}
	}
	return SliceV{Arr: arr, Off: in.k64(0), N: n, C: n}
}

func (in *Interp) sliceOp(instr *ssa.Slice, x, lo, hi, max Value) Value {
	tc := in.tc
	get := func(v Value, val ssa.Value) *Term {
		if v == nil {
			return nil
		}
		return in.to64(v, val.Type())
	}
	var l, h, m *Term
	if instr.Low != nil {
		l = get(lo, instr.Low)
	}
	if instr.High != nil {
		h = get(hi, instr.High)
	}
	if instr.Max != nil {
		m = get(max, instr.Max)
	}
	if l == nil {
		l = in.k64(0)
	}
	switch xv := x.(type) {
	case string, *SymStr:
		s := in.toSymStr(xv)
		n := in.k64(int64(len(s.B)))
		if h == nil {
			h = n
		}
		in.check(tc.And(tc.Cmp(OpULe, l, h), tc.Cmp(OpULe, h, n)), "slice bounds out of range")
		lc := in.concretize(l, "string slice lo")
		hc := in.concretize(h, "string slice hi")
		return normStr(&SymStr{B: s.B[lc:hc]})
	case SliceV:
		if h == nil {
			h = xv.N
		}
		if m == nil {
			m = xv.C
		}
		ok := tc.And(tc.Cmp(OpULe, l, h), tc.And(tc.Cmp(OpULe, h, m), tc.Cmp(OpULe, m, xv.C)))
		in.check(ok, "slice bounds out of range")
		if xv.Arr == nil {
			return xv
		}
		return SliceV{Arr: xv.Arr, Off: tc.Bin(OpAdd, xv.Off, l), N: tc.Bin(OpSub, h, l), C: tc.Bin(OpSub, m, l)}
	case *Value:
		if xv == nil {
			in.rtPanic("invalid memory address or nil pointer dereference")
		}
		arr := (*xv).(Array)
		n := in.k64(int64(len(arr)))
		if h == nil {
			h = n
		}
		if m == nil {
			m = n
		}
		ok := tc.And(tc.Cmp(OpULe, l, h), tc.And(tc.Cmp(OpULe, h, m), tc.Cmp(OpULe, m, n)))
		in.check(ok, "slice bounds out of range")
		return SliceV{Arr: []Value(arr), Off: l, N: tc.Bin(OpSub, h, l), C: tc.Bin(OpSub, m, l)}
	}
	panic(unsupported(fmt.Sprintf("slice of %T", x)))
}

func (in *Interp) indexAddr(instr *ssa.IndexAddr, x, idx Value) Value {
	tc := in.tc
	i := in.to64(idx, instr.Index.Type())
	var arr []Value
	var off, n *Term
	var elemT types.Type
	switch xv := x.(type) {
	case SliceV:
		arr, off, n = xv.Arr, xv.Off, xv.N
		elemT = instr.X.Type().Underlying().(*types.Slice).Elem()
	case *Value:
		if xv == nil {
			in.rtPanic("invalid memory address or nil pointer dereference")
		}
		a := (*xv).(Array)
		arr, off, n = []Value(a), in.k64(0), in.k64(int64(len(a)))
		pt := instr.X.Type().Underlying().(*types.Pointer)
		elemT = pt.Elem().Underlying().(*types.Array).Elem()
	default:
		panic(unsupported(fmt.Sprintf("IndexAddr on %T", x)))
	}
	in.check(tc.Cmp(OpULt, i, n), "index out of range")
	pos := tc.Bin(OpAdd, off, i)
	if !pos.IsConst() && !isScalarType(elemT) {
		pos = in.k64(int64(in.concretize(pos, "index of non-scalar element")))
	}
	if pos.IsConst() {
		if pos.V >= uint64(len(arr)) {
			panic(unsupported(fmt.Sprintf("internal: index %d beyond backing %d", pos.V, len(arr))))
		}
		return &arr[pos.V]
	}
	return ElemPtr{Arr: arr, Idx: pos}
}

func (in *Interp) index(instr *ssa.Index, x, idx Value) Value {
	tc := in.tc
	i := in.to64(idx, instr.Index.Type())
	switch xv := x.(type) {
	case Array:
		in.check(tc.Cmp(OpULt, i, in.k64(int64(len(xv)))), "index out of range")
		return copyVal(in.sel([]Value(xv), i))
	case string:
		in.check(tc.Cmp(OpULt, i, in.k64(int64(len(xv)))), "index out of range")
		if i.IsConst() {
			return tc.Const(uint64(xv[i.V]), 8)
		}
		s := in.toSymStr(xv)
		arr := make([]Value, len(s.B))
		for k, b := range s.B {
			arr[k] = b
		}
		return in.sel(arr, i)
	case *SymStr:
		in.check(tc.Cmp(OpULt, i, in.k64(int64(len(xv.B)))), "index out of range")
		arr := make([]Value, len(xv.B))
		for k, b := range xv.B {
			arr[k] = b
		}
		return in.sel(arr, i)
	}
	panic(unsupported(fmt.Sprintf("Index on %T", x)))
}

func (in *Interp) makeSlice(instr *ssa.MakeSlice, ln, cp Value) Value {
	tc := in.tc
	n := in.to64(ln, instr.Len.Type())
	c := in.to64(cp, instr.Cap.Type())
	elemT := instr.Type().Underlying().(*types.Slice).Elem()
	in.check(tc.And(tc.Cmp(OpSLe, in.k64(0), n), tc.Cmp(OpSLe, n, c)), "makeslice: len out of range")
	var size int
	if c.IsConst() {
		if c.V > uint64(in.cfg.MaxAlloc) {
			panic(pathEnd{EndUnwind, fmt.Sprintf("make: concrete size %d exceeds engine limit", c.V)})
		}
		size = int(c.V)
	} else {
		if !isScalarType(elemT) {
			size = int(in.concretize(c, "make of non-scalar slice"))
			c = in.k64(int64(size))
			n = in.k64(int64(in.concretize(n, "make len")))
		} else {
			ub := in.cfg.MaxSymAlloc
			if !in.decide(tc.Cmp(OpULe, c, in.k64(int64(ub)))) {
				in.boundHit("make([]T, n): n exceeds symbolic allocation bound")
			}
			size = ub
		}
	}
	arr := make([]Value, size)
	for i := range arr {
		arr[i] = in.zero(elemT)
	}
	return SliceV{Arr: arr, Off: in.k64(0), N: n, C: c}
}

func (in *Interp) boundHit(msg string) {
	panic(pathEnd{EndUnwind, msg})
}

func (in *Interp) builtinAppend(args []Value, sig *types.Signature) Value {
	tc := in.tc
	s := args[0].(SliceV)
	if len(args) == 1 {
		return s
	}
	var t SliceV
	switch a := args[1].(type) {
	case SliceV:
		t = a
	case string, *SymStr:
		bs := in.toSymStr(a).B
		arr := make([]Value, len(bs))
		for i, b := range bs {
			arr[i] = b
		}
		t = in.mkSliceConst(arr)
	default:
		panic(unsupported(fmt.Sprintf("append arg %T", a)))
	}
	elemT := sig.Params().At(0).Type().Underlying().(*types.Slice).Elem()
	scalar := isScalarType(elemT)
	if !scalar {
		s.N = in.k64(int64(in.concretize(s.N, "append len")))
		s.C = in.k64(int64(in.concretize(s.C, "append cap")))
		t.N = in.k64(int64(in.concretize(t.N, "append src len")))
		if s.Arr != nil {
			s.Off = in.k64(int64(in.concretize(s.Off, "append off")))
		}
		if t.Arr != nil {
			t.Off = in.k64(int64(in.concretize(t.Off, "append src off")))
		}
	}
	if t.N.IsConst() && t.N.V == 0 {
		return s
	}
	total := tc.Bin(OpAdd, s.N, t.N)
	ubM := len(t.Arr)
	if t.N.IsConst() {
		ubM = int(t.N.V)
	}
	// read source elements first (handles aliasing)
	src := make([]Value, ubM)
	for j := 0; j < ubM; j++ {
		src[j] = copyVal(in.sel(t.Arr, tc.Bin(OpAdd, t.Off, in.k64(int64(j)))))
	}
	if s.Arr != nil && in.decide(tc.Cmp(OpULe, total, s.C)) {
		// in place
		for j := 0; j < ubM; j++ {
			g := tc.Cmp(OpULt, in.k64(int64(j)), t.N)
			pos := tc.Bin(OpAdd, tc.Bin(OpAdd, s.Off, s.N), in.k64(int64(j)))
			if pos.IsConst() && pos.V >= uint64(len(s.Arr)) {
				continue // guard is necessarily false there
			}
			in.upd(s.Arr, pos, g, src[j])
		}
		return SliceV{Arr: s.Arr, Off: s.Off, N: total, C: s.C}
	}
	// reallocate
	ubN := 0
	if s.Arr != nil {
		if s.N.IsConst() {
			ubN = int(s.N.V)
		} else {
			ubN = len(s.Arr)
		}
	}
	newCap := ubN + ubM
	if s.N.IsConst() && t.N.IsConst() {
		// the capacity the Go runtime would choose (growslice + malloc size classes): whether a later append
		// writes in place or reallocates decides who aliases whom
		oldCap := 0
		if s.Arr != nil && s.C.IsConst() {
			oldCap = int(s.C.V)
		}
		newCap = goGrowCap(oldCap, ubN+ubM, int(goSizes.Sizeof(elemT)))
	}
	if newCap > in.cfg.MaxAlloc {
		panic(pathEnd{EndUnwind, "append: size exceeds engine limit"})
	}
	arr := make([]Value, newCap)
	for i := 0; i < newCap; i++ {
		arr[i] = in.zero(elemT)
	}
	for i := 0; i < ubN; i++ {
		g := tc.Cmp(OpULt, in.k64(int64(i)), s.N)
		v := copyVal(in.sel(s.Arr, tc.Bin(OpAdd, s.Off, in.k64(int64(i)))))
		arr[i] = in.iteVal(g, v, arr[i])
	}
	for j := 0; j < ubM; j++ {
		g := tc.Cmp(OpULt, in.k64(int64(j)), t.N)
		in.upd(arr, tc.Bin(OpAdd, s.N, in.k64(int64(j))), g, src[j])
	}
	return SliceV{Arr: arr, Off: in.k64(0), N: total, C: in.k64(int64(newCap))}
}

func (in *Interp) builtinCopy(args []Value) Value {
	tc := in.tc
	d := args[0].(SliceV)
	var s SliceV
	switch a := args[1].(type) {
	case SliceV:
		s = a
	case string, *SymStr:
		bs := in.toSymStr(a).B
		arr := make([]Value, len(bs))
		for i, b := range bs {
			arr[i] = b
		}
		s = in.mkSliceConst(arr)
	}
	n := tc.Ite(tc.Cmp(OpULt, d.N, s.N), d.N, s.N)
	if n.IsConst() && n.V == 0 {
		return n
	}
	ub := len(d.Arr)
	if len(s.Arr) < ub {
		ub = len(s.Arr)
	}
	if n.IsConst() {
		ub = int(n.V)
	}
	if d.Arr == nil || s.Arr == nil {
		return n
	}
	if len(d.Arr) > 0 {
		if _, scalar := d.Arr[0].(*Term); !scalar && !n.IsConst() {
			nn := in.concretize(n, "copy length of non-scalar")
			n = in.k64(int64(nn))
			ub = int(nn)
			d.Off = in.k64(int64(in.concretize(d.Off, "copy dst off")))
			s.Off = in.k64(int64(in.concretize(s.Off, "copy src off")))
		}
	}
	src := make([]Value, ub)
	for j := 0; j < ub; j++ {
		pos := tc.Bin(OpAdd, s.Off, in.k64(int64(j)))
		if pos.IsConst() && pos.V >= uint64(len(s.Arr)) {
			src[j] = nil
			continue
		}
		src[j] = copyVal(in.sel(s.Arr, pos))
	}
	for j := 0; j < ub; j++ {
		if src[j] == nil {
			continue
		}
		pos := tc.Bin(OpAdd, d.Off, in.k64(int64(j)))
		if pos.IsConst() && pos.V >= uint64(len(d.Arr)) {
			continue
		}
		in.upd(d.Arr, pos, tc.Cmp(OpULt, in.k64(int64(j)), n), src[j])
	}
	return n
}

// ---- maps ----

func (in *Interp) mapFind(m *MapV, k Value) int {
	for i := range m.E {
		if in.decide(in.equals(k, m.E[i].K)) {
			return i
		}
	}
	return -1
}

func (in *Interp) mapLookup(instr *ssa.Lookup, x, k Value) Value {
	switch xv := x.(type) {
	case *MapV:
		mt := instr.X.Type().Underlying().(*types.Map)
		var v Value
		found := false
		if xv != nil {
			if i := in.mapFind(xv, k); i >= 0 {
				v, found = copyVal(xv.E[i].V), true
			}
		}
		if !found {
			v = in.zero(mt.Elem())
		}
		if instr.CommaOk {
			return Tuple{v, in.tc.Bool(found)}
		}
		return v
	case string, *SymStr:
		s := in.toSymStr(xv)
		i := in.to64(k, instr.Index.Type())
		in.check(in.tc.Cmp(OpULt, i, in.k64(int64(len(s.B)))), "index out of range")
		arr := make([]Value, len(s.B))
		for j, b := range s.B {
			arr[j] = b
		}
		return in.sel(arr, i)
	}
	panic(unsupported(fmt.Sprintf("Lookup on %T", x)))
}

func (in *Interp) mapUpdate(m *MapV, k, v Value) {
	if m == nil {
		panic(&GoPanic{Msg: "assignment to entry in nil map", Runtime: true, Site: in.curSite(), Val: Iface{T: in.runtimeErrT, V: "assignment to entry in nil map"}})
	}
	if i := in.mapFind(m, k); i >= 0 {
		m.E[i].V = copyVal(v)
		return
	}
	m.E = append(m.E, mapEntry{K: copyVal(k), V: copyVal(v)})
}

func (in *Interp) mapDelete(m *MapV, k Value) {
	if m == nil {
		return
	}
	if i := in.mapFind(m, k); i >= 0 {
		m.E = append(m.E[:i:i], m.E[i+1:]...)
	}
}

// ---- iteration ----

type iterator interface {
	next(in *Interp) Tuple
}

type mapIter struct {
	m    *MapV
	keys []mapEntry
	i    int
}

func (it *mapIter) next(in *Interp) Tuple {
	for it.i < len(it.keys) {
		e := it.keys[it.i]
		it.i++
		// entry may have been deleted during iteration
		for _, cur := range it.m.E {
			if same, ok := quickSame(cur.K, e.K); ok && same {
				return Tuple{tTrue, copyVal(cur.K), copyVal(cur.V)}
			}
		}
	}
	return Tuple{tFalse, nil, nil}
}

// quickSame compares keys by identity of representation (used for iteration over snapshots).
func quickSame(a, b Value) (bool, bool) {
	switch x := a.(type) {
	case *Term:
		y, ok := b.(*Term)
		return ok && same(x, y), true
	case string:
		y, ok := b.(string)
		return ok && x == y, true
	case Struct:
		y, ok := b.(Struct)
		if !ok || len(x) != len(y) {
			return false, true
		}
		for i := range x {
			if s, _ := quickSame(x[i], y[i]); !s {
				return false, true
			}
		}
		return true, true
	case Array:
		y, ok := b.(Array)
		if !ok || len(x) != len(y) {
			return false, true
		}
		for i := range x {
			if s, _ := quickSame(x[i], y[i]); !s {
				return false, true
			}
		}
		return true, true
	case Iface:
		y, ok := b.(Iface)
		if !ok {
			return false, true
		}
		if x.T == nil || y.T == nil {
			return x.T == nil && y.T == nil, true
		}
		if !types.Identical(x.T, y.T) {
			return false, true
		}
		return quickSame(x.V, y.V)
	case *SymStr:
		y, ok := b.(*SymStr)
		if !ok || len(x.B) != len(y.B) {
			return false, true
		}
		for i := range x.B {
			if !same(x.B[i], y.B[i]) {
				return false, true
			}
		}
		return true, true
	}
	return a == b, true
}

type strIter struct {
	s string
	i int
}

func (it *strIter) next(in *Interp) Tuple {
	if it.i >= len(it.s) {
		return Tuple{tFalse, in.k64(0), in.tc.Const(0, 32)}
	}
	r, sz := utf8.DecodeRuneInString(it.s[it.i:])
	idx := it.i
	it.i += sz
	return Tuple{tTrue, in.k64(int64(idx)), in.tc.Const(uint64(r), 32)}
}

func (in *Interp) rangeIter(x Value) iterator {
	switch xv := x.(type) {
	case *MapV:
		if xv == nil {
			return &mapIter{m: &MapV{}}
		}
		return &mapIter{m: xv, keys: append([]mapEntry(nil), xv.E...)}
	case string:
		return &strIter{s: xv}
	}
	panic(unsupported(fmt.Sprintf("range over %T", x)))
}

// ---- type assertions ----

func (in *Interp) typeAssert(instr *ssa.TypeAssert, itf Iface) Value {
	var v Value
	errMsg := ""
	if itf.T == nil {
		errMsg = fmt.Sprintf("interface conversion: interface is nil, not %s", instr.AssertedType)
	} else if idst, ok := instr.AssertedType.Underlying().(*types.Interface); ok {
		v = itf
		if !in.implements(itf.T, idst) {
			errMsg = fmt.Sprintf("interface conversion: %s does not implement %s", itf.T, instr.AssertedType)
		}
	} else if types.Identical(itf.T, instr.AssertedType) {
		v = itf.V
	} else {
		errMsg = fmt.Sprintf("interface conversion: interface is %s, not %s", itf.T, instr.AssertedType)
	}
	if errMsg != "" {
		if !instr.CommaOk {
			panic(&GoPanic{Msg: errMsg, Runtime: true, Site: in.curSite(), Val: Iface{T: in.runtimeErrT, V: errMsg}, Stack: in.stackTrace()})
		}
		return Tuple{in.zero(instr.AssertedType), tFalse}
	}
	if instr.CommaOk {
		return Tuple{v, tTrue}
	}
	return v
}

func (in *Interp) implements(t types.Type, iface *types.Interface) bool {
	if _, ok := t.(*opaqueType); ok {
		return true
	}
	return types.Implements(t, iface)
}

// opaqueType is the dynamic type of engine-made interface values (opaque errors etc.).
type opaqueType struct{ name string }

func (o *opaqueType) Underlying() types.Type { return o }
func (o *opaqueType) String() string         { return "opaque:" + o.name }

// ---- channels ----

func (in *Interp) chanRecv(x Value, commaOk bool, t types.Type) Value {
	ch, _ := x.(*ChanV)
	if ch == nil {
		panic(pathEnd{EndBlocked, "receive from nil channel"})
	}
	if len(ch.Buf) == 0 {
		if ch.Closed {
			z := in.zero(ch.Elem)
			if commaOk {
				return Tuple{z, tFalse}
			}
			return z
		}
		panic(pathEnd{EndBlocked, "receive would block"})
	}
	v := ch.Buf[0]
	ch.Buf = ch.Buf[1:]
	if commaOk {
		return Tuple{v, tTrue}
	}
	return v
}

func (in *Interp) chanSend(x Value, v Value) {
	ch, _ := x.(*ChanV)
	if ch == nil {
		panic(pathEnd{EndBlocked, "send on nil channel"})
	}
	if ch.Closed {
		panic(&GoPanic{Msg: "send on closed channel", Runtime: true, Site: in.curSite(), Val: Iface{T: in.runtimeErrT, V: "send on closed channel"}})
	}
	if len(ch.Buf) >= ch.Cap {
		if ch.Cap == 0 {
			// unbuffered: model as rendezvous with an always-ready receiver that drops the value
			in.droppedSends++
			return
		}
		panic(pathEnd{EndBlocked, "send would block"})
	}
	ch.Buf = append(ch.Buf, copyVal(v))
}

var _ = strings.Contains

var goSizes = types.SizesFor("gc", "amd64")

var goSizeClasses = []int{8, 16, 24, 32, 48, 64, 80, 96, 112, 128, 144, 160, 176, 192, 208, 224, 240, 256, 288, 320, 352, 384, 416, 448, 480, 512, 576, 640, 704, 768, 896, 1024, 1152, 1280, 1408, 1536, 1792, 2048, 2304, 2688, 3072, 3200, 3456, 4096, 4864, 5376, 6144, 6528, 6784, 6912, 8192, 9472, 9728, 10240, 10880, 12288, 13568, 14336, 16384, 18432, 19072, 20480, 21760, 24576, 27264, 28672, 32768}

// goGrowCap mirrors runtime.growslice (Go 1.20+) for element size es.
func goGrowCap(oldCap, newLen, es int) int {
	newcap := oldCap
	doublecap := 2 * oldCap
	if newLen > doublecap {
		newcap = newLen
	} else if oldCap < 256 {
		newcap = doublecap
	} else {
		for newcap < newLen {
			newcap += (newcap + 3*256) / 4
		}
	}
	if es <= 0 {
		return newcap
	}
	mem := newcap * es
	for _, c := range goSizeClasses {
		if c >= mem {
			return c / es
		}
	}
	// large allocation: rounded up to pages
	const page = 8192
	return ((mem + page - 1) / page * page) / es
}
