package main

// Network and hash stubs: UDP socket scripted by the harness, MD5 as an uninterpreted function of its input bytes.

import (
	"fmt"
	"go/types"
)

type md5State struct {
	data []*Term
}

// hashUF returns 16 bytes that are an uninterpreted function of the (concrete-length) input byte sequence.
func (in *Interp) hashUF(name string, data []*Term) []Value {
	n := len(data)
	hi := in.tc.UF(fmt.Sprintf("%s_hi_%d", name, n), 64, data...)
	lo := in.tc.UF(fmt.Sprintf("%s_lo_%d", name, n), 64, data...)
	out := make([]Value, 16)
	for i := 0; i < 8; i++ {
		out[i] = in.tc.Extract(hi, 63-8*i, 56-8*i)
		out[8+i] = in.tc.Extract(lo, 63-8*i, 56-8*i)
	}
	return out
}

func (in *Interp) sliceBytes(v Value, why string) []*Term {
	var bs []*Term
	switch s := v.(type) {
	case SliceV:
		n := int(in.concretize(s.N, why+" length"))
		for i := 0; i < n; i++ {
			bs = append(bs, in.sel(s.Arr, in.tc.Bin(OpAdd, s.Off, in.k64(int64(i)))).(*Term))
		}
	case string, *SymStr:
		bs = in.toSymStr(s).B
	}
	return bs
}

func (in *Interp) callMD5Method(st *md5State, name string, args []Value, sig *types.Signature) Value {
	switch name {
	case "Write":
		bs := in.sliceBytes(args[0], "md5.Write")
		st.data = append(st.data, bs...)
		return Tuple{in.k64(int64(len(bs))), Iface{}}
	case "Sum":
		prefix := in.sliceBytes(args[0], "md5.Sum prefix")
		out := make([]Value, 0, len(prefix)+16)
		for _, b := range prefix {
			out = append(out, b)
		}
		out = append(out, in.hashUF("md5", st.data)...)
		return in.mkSliceConst(out)
	case "Reset":
		st.data = nil
		return nil
	case "Size":
		return in.k64(16)
	case "BlockSize":
		return in.k64(64)
	}
	panic(unsupported("md5 method " + name))
}

func init() {
	s := stubs
	s["crypto/md5.New"] = func(in *Interp, fr *frame, a []Value) Value {
		return Iface{T: &opaqueType{"md5"}, V: &md5State{}}
	}
	s["crypto/md5.Sum"] = func(in *Interp, fr *frame, a []Value) Value {
		bs := in.sliceBytes(a[0], "md5.Sum")
		return Array(in.hashUF("md5", bs))
	}
	// ---- scripted UDP socket ----
	h := harnessAPI
	h["vNetPush"] = func(in *Interp, fr *frame, a []Value) Value {
		in.env.udpIn = append(in.env.udpIn, a[0].(SliceV))
		return nil
	}
	h["vNetSent"] = func(in *Interp, fr *frame, a []Value) Value {
		out := make([]Value, len(in.env.udpOut))
		for i, d := range in.env.udpOut {
			out[i] = d
		}
		return in.mkSliceConst(out)
	}
	h["vNetOnEmpty"] = func(in *Interp, fr *frame, a []Value) Value {
		in.env.udpOnEmpty = a[0]
		return nil
	}
	s["(*net.UDPConn).ReadFromUDP"] = func(in *Interp, fr *frame, a []Value) Value {
		buf := a[1].(SliceV)
		if len(in.env.udpIn) == 0 {
			if in.env.udpOnEmpty != nil {
				in.call(fr, in.env.udpOnEmpty, nil, nil)
			}
			in.env.udpEmptyReads++
			if in.env.udpEmptyReads > 3 {
				panic(pathEnd{EndBlocked, "ReadFromUDP: no more scripted datagrams and the loop does not stop"})
			}
			return Tuple{in.k64(0), (*Value)(nil), in.mkError("i/o timeout")}
		}
		d := in.env.udpIn[0]
		in.env.udpIn = in.env.udpIn[1:]
		n := in.builtinCopy([]Value{buf, d})
		var addr Value = Struct{SliceV{Arr: []Value{in.tc.Const(127, 8), in.tc.Const(0, 8), in.tc.Const(0, 8), in.tc.Const(1, 8)}, Off: in.k64(0), N: in.k64(4), C: in.k64(4)}, in.k64(3799), ""}
		return Tuple{n, &addr, Iface{}}
	}
	s["(*net.UDPConn).WriteToUDP"] = func(in *Interp, fr *frame, a []Value) Value {
		d := a[1].(SliceV)
		// snapshot the bytes
		n := int(in.concretize(d.N, "WriteToUDP length"))
		arr := make([]Value, n)
		for i := 0; i < n; i++ {
			arr[i] = in.sel(d.Arr, in.tc.Bin(OpAdd, d.Off, in.k64(int64(i))))
		}
		in.env.udpOut = append(in.env.udpOut, in.mkSliceConst(arr))
		return Tuple{in.k64(int64(n)), Iface{}}
	}
	for _, n := range []string{"(*net.conn).SetReadDeadline", "(*net.UDPConn).SetReadDeadline", "(*net.conn).SetDeadline", "(*net.UDPConn).SetDeadline", "(*net.conn).SetWriteDeadline", "(*net.UDPConn).SetWriteDeadline", "(*net.conn).Close", "(*net.UDPConn).Close"} {
		s[n] = func(in *Interp, fr *frame, a []Value) Value { return Iface{} }
	}
	s["(*net.UDPAddr).String"] = func(in *Interp, fr *frame, a []Value) Value { return "127.0.0.1:3799" }
}

// RADIUS authentication outcome is an environment choice: accept / reject / error (timeout, unreachable).
func init() {
	stubs["(*"+repoModule+"/pkg/radius.Client).Authenticate"] = func(in *Interp, fr *frame, a []Value) Value {
		outcome := in.pick("radius-outcome", 3)
		in.env.kv["radius-outcome"] = in.k64(int64(outcome))
		if outcome == 2 {
			return Tuple{(*Value)(nil), in.mkError("radius: timeout")}
		}
		rt := fr.fn.Signature.Results().At(0).Type().(*types.Pointer).Elem()
		var cell Value = in.zero(rt)
		st := cell.(Struct)
		st[0] = in.tc.Bool(outcome == 0) // Accepted
		return Tuple{&cell, Iface{}}
	}
	harnessAPI["vEnvInt"] = func(in *Interp, fr *frame, a []Value) Value {
		if v, ok := in.env.kv[a[0].(string)]; ok {
			return v
		}
		return a[1]
	}
}

// pool.hashString: FNV-1a. Names starting with "sym:" denote arbitrary strings: their hash is a free 64-bit
// variable (one per name), i.e. the check quantifies over every possible FNV value of that string.
func init() {
	stubs[repoModule+"/pkg/pool.hashString"] = func(in *Interp, fr *frame, a []Value) Value {
		s, ok := in.goString(a[0])
		if !ok {
			panic(unsupported("hashString of a symbolic string"))
		}
		if len(s) > 4 && s[:4] == "sym:" {
			in.usedInternal = true
			return in.tc.Var("fnv_"+tagRe.ReplaceAllString(s[4:], "_"), 64)
		}
		h := uint64(14695981039346656037)
		for i := 0; i < len(s); i++ {
			h ^= uint64(s[i])
			h *= 1099511628211
		}
		return in.tc.Const(h, 64)
	}
	// sort.Slice as insertion sort through the caller's less closure (symbolic comparisons fork)
	stubs["sort.Slice"] = func(in *Interp, fr *frame, a []Value) Value {
		itf := a[0].(Iface)
		sl, ok := itf.V.(SliceV)
		if !ok {
			panic(unsupported("sort.Slice on non-slice"))
		}
		n := int(in.concretize(sl.N, "sort.Slice length"))
		off := int(in.concretize(sl.Off, "sort.Slice offset"))
		for i := 1; i < n; i++ {
			for j := i; j > 0; j-- {
				r := in.call(fr, a[1], []Value{in.k64(int64(j)), in.k64(int64(j - 1))}, nil).(*Term)
				if !in.decide(r) {
					break
				}
				sl.Arr[off+j], sl.Arr[off+j-1] = sl.Arr[off+j-1], sl.Arr[off+j]
			}
		}
		return nil
	}
	stubs["sort.Strings"] = func(in *Interp, fr *frame, a []Value) Value {
		sl := a[0].(SliceV)
		n := int(in.concretize(sl.N, "sort.Strings length"))
		off := int(in.concretize(sl.Off, "sort.Strings offset"))
		ss := make([]string, n)
		for i := range ss {
			s, ok := in.goString(sl.Arr[off+i])
			if !ok {
				panic(unsupported("sort.Strings of symbolic strings"))
			}
			ss[i] = s
		}
		sortStrings(ss)
		for i := range ss {
			sl.Arr[off+i] = ss[i]
		}
		return nil
	}
}
