#!/usr/bin/env python3
# Assembles DESIGN.md = design/head.md + §5 generated from checks.json/meta.json + design/tail.md
# (fixed-defect table from known_findings.json, seed table from design/seeds.tsv).
import json,subprocess,re
checks={c['id']:c for c in json.load(open('/verif/checks.json'))}
meta=json.load(open('/verif/meta.json'))
kf=json.load(open('/verif/known_findings.json'))
props=[json.loads(l) for l in open('/verif/properties.jsonl')]
out=[open('/verif/design/head.md').read(),"\n---------------------------------------------------------------------------------------\n\n## 5. Per-property checks\n\nGenerated from `checks.json` (what runs) and `meta.json` (what is claimed). `params` are the quick-tier bounds, `thorough` the thorough-tier ones; `replay` says whether counterexamples of that harness are re-run natively (default: yes).\n"]
for p in props:
    i=p['id']; c=checks.get(i)
    out.append(f"\n### {i} — {p['title']}\n")
    if not c:
        out.append("Not claimed: "+meta['na'].get(i,'')+"\n"); continue
    m=meta['claimed'].get(i,{})
    out.append(f"*Level*: {c.get('level','model_checking')}. {m.get('text','')}\n")
    out.append(f"\n*Bounds*: {c.get('bounds','see harness parameters')}\n")
    if c.get('assumptions'):
        out.append("\n*Stubs / assumptions*: "+"; ".join(c['assumptions'])+".\n")
    if m.get('note'): out.append(f"\n*Outside the claim*: {m['note']}\n")
    out.append("\n| harness | quick | thorough | replay |\n|---|---|---|---|\n")
    for h in c['harnesses']:
        q=", ".join(f"{k}={v}" for k,v in (h.get('params') or {}).items()) or "—"
        t=", ".join(f"{k}={v}" for k,v in (h.get('thorough') or {}).items()) or ("(thorough only)" if h.get('tier')=='thorough' else "same")
        if h.get('tier')=='thorough': q="(not in quick)"
        out.append(f"| `{h['pkg']}`.`{h['fn']}` | {q} | {t} | {h.get('replay','native')} |\n")
    ks=[x for x in kf['known'] if x['property']==i]
    if ks:
        out.append("\n*Known findings printed by this check*: "+"; ".join(re.sub(r'\s+',' ',x['what'])[:160]+("…" if len(x['what'])>160 else "") for x in ks)+"\n")
tail=open('/verif/design/tail.md').read()
rows=[]
for f in kf['fixed']:
    mm=re.match(r'fixed: property=(\S+) (\S+) (.*)',f)
    rows.append((mm.group(2),mm.group(1),mm.group(3)))
order=subprocess.check_output(['git','-C','/repo','log','--reverse','--format=%h']).decode().split()
rows.sort(key=lambda r: order.index(r[0]) if r[0] in order else 999)
tail=tail.replace('@@FIXED@@',"\n".join(f"| {a} | {b} | {c.replace('|','/')} |" for a,b,c in rows))
seeds=[l.rstrip('\n').split('\t') for l in open('/verif/design/seeds.tsv') if l.strip() and not l.startswith('#')]
tail=tail.replace('@@SEEDS@@',"\n".join("| "+" | ".join(x.replace('|','/') for x in s)+" |" for s in seeds))
out.append(tail)
open('/verif/DESIGN.md','w').write("".join(out))
print("DESIGN.md written:",sum(x.count('\n') for x in out),"lines")
