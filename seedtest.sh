#!/bin/bash
# usage: seedtest.sh <patch.diff> <ID> [tier]  — applies a seeded change to /repo, runs the check, reverts
set -u
P="$1"; ID="$2"; TIER="${3:-quick}"
cd /repo && git apply "$P" || { echo "APPLY-FAILED $P"; exit 3; }
cd /verif && ./check "$ID" "$TIER" > /tmp/seedtest.$$.log 2>&1; rc=$?
cd /repo && git checkout -- . && git clean -fdq
grep -E "^VIOLATION|^INCONCLUSIVE|^KNOWN|replay-status| (quick|thorough):" /tmp/seedtest.$$.log | cut -c1-300
echo "exit=$rc"; rm -f /tmp/seedtest.$$.log
