#!/bin/bash
# developer build that ignores in-progress llir_*.go files (used while the IR front end is under construction)
set -e
export PATH=/opt/veriftools/go1.26.8/bin:$PATH GOPROXY=off GOSUMDB=off GOTOOLCHAIN=local GOFLAGS=-mod=mod
rm -rf /tmp/engbuild && mkdir -p /tmp/engbuild && cd /verif/engine
for f in *.go go.mod go.sum; do case $f in llir_*) ;; *) cp $f /tmp/engbuild/;; esac; done
cd /tmp/engbuild && go build -o /verif/bin/bngsym . && touch /verif/bin/bngsym
