#!/bin/bash
# developer build = the registered build
exec /verif/setup.sh
