#!/usr/bin/env python3
# Regenerates MANIFEST.json from checks.json (what is claimed) and meta.json (texts, N/A reasons).
import json
checks=json.load(open('/verif/checks.json')); meta=json.load(open('/verif/meta.json'))
ids=[json.loads(l)['id'] for l in open('/verif/properties.jsonl')]
claimed={c['id']:c for c in checks if c.get('harnesses')}
m={"version":1,
 "setup_cmd":"./setup.sh",
 "hooks":{"guard":"verif","enable":"harness sources from /verif/harness are injected into the package under test through a go/packages overlay (build tag verif); no file in /repo is changed",
          "baseline_off_cmd":"cd /repo && go1.26.8 test -vet=off -count=1 ./...","source_commits":[],"add_only":True},
 "engines":[{"name":"bngsym","path":"/verif/engine","serves_properties":sorted(claimed),
   "kind_free_text":"bounded symbolic executor over go/ssa of /repo's working tree (x/tools v0.50.0) emitting SMT-LIB2 to z3; forks on control, data symbolic; counterexamples replayed natively with go test -overlay"}],
 "checks":[], "not_applicable":[], "notes":meta.get("notes","")}
for i in ids:
    if i in claimed:
        mm=meta["claimed"].get(i,{})
        m["checks"].append({"property_id":i,"quick_cmd":f"./check {i} quick","thorough_cmd":f"./check {i} thorough",
          "evidence_file":f"/verif/evidence/{i}.json","replay_cmd_template":"./replay {path}","engine":"bngsym",
          "level_claimed":{"category":claimed[i].get("level","model_checking"),"text":mm.get("text","bounded symbolic execution of the real code; see DESIGN.md"),"design_ref":mm.get("design_ref","DESIGN.md §5 "+i)},
          "level_note":mm.get("note","bounds and stubs as listed in the evidence file; go/ssa + engine semantics + z3 trusted"),
          "technique":mm.get("technique","SMT-based bounded symbolic execution of go/ssa (solver decides every assertion over all inputs within the bound)")})
    else:
        m["not_applicable"].append({"property_id":i,"reason":meta["na"].get(i,"check not built yet in this session (solver-based harness pending)")})
json.dump(m,open('/verif/MANIFEST.json','w'),indent=1); print("claimed:",sorted(claimed))
