//go:build verif

package subscriber

import (
	"context"
	"net"
	"time"

	"go.uber.org/zap"
)

// vAlloc is the address allocator behind the manager: it counts releases per address; while a release is in
// progress (the manager holds no lock there) another termination path may run to completion.
type vAlloc struct {
	released map[string]int
	during   func()
}

func (a *vAlloc) AllocateIPv4(ctx context.Context, s *Session, pool string) (net.IP, net.IPMask, net.IP, error) {
	return net.IP{10, 1, 0, 5}, net.IPMask{255, 255, 255, 0}, net.IP{10, 1, 0, 1}, nil
}
func (a *vAlloc) AllocateIPv6(ctx context.Context, s *Session, pool string) (net.IP, *net.IPNet, error) {
	return vV6, nil, nil
}
func (a *vAlloc) hook() {
	if f := a.during; f != nil {
		a.during = nil
		f()
	}
}
func (a *vAlloc) ReleaseIPv4(ctx context.Context, ip net.IP) error {
	a.released[ip.String()]++
	a.hook()
	return nil
}
func (a *vAlloc) ReleaseIPv6(ctx context.Context, ip net.IP) error {
	a.released[ip.String()]++
	a.hook()
	return nil
}

var (
	vV4  = net.IP{10, 1, 0, 5}
	vV6  = net.IP{0x20, 0x01, 0x0d, 0xb8, 0, 0, 0, 0, 0, 0, 0, 0, 0, 0, 0, 5}
	vMAC = net.HardwareAddr{2, 0, 0, 0, 0, 9}
)

var vReasons = []TerminateReason{TerminateUserRequest, TerminateAdminReset, TerminateLostCarrier, TerminateNASRequest, TerminateNASReboot, TerminateAuthFailed}

// subscriber.Manager: a session in any state, holding an IPv4 and/or IPv6 address, ends by an explicit
// TerminateSession (any reason), by the cleanup tick (session or idle timeout, arbitrary durations and clock), or by
// two of those at once (the second runs while the first is releasing addresses outside the lock): each address is
// released exactly once, the session is unreachable by id, MAC and address, one terminate event, and ending it again
// changes nothing.
func VerifC16_SubscriberEnd() {
	alloc := &vAlloc{released: map[string]int{}}
	m := NewManager(ManagerConfig{MaxSessions: 10, CleanupInterval: time.Minute}, nil, alloc, zap.NewNop())
	events := 0
	m.OnEvent(func(e *SessionEvent) {
		if e.Type == EventSessionTerminate {
			events++
		}
	})
	now := time.Now()
	states := []SessionState{StateInit, StateEstablishing, StateActive} // the state is only recorded
	sess := &Session{ID: "s1", MAC: vMAC, State: states[ndPick("state", len(states))], CreatedAt: now, UpdatedAt: now, StartTime: now,
		LastActivity: now, SessionTimeout: ndDuration("session-timeout"), IdleTimeout: ndDuration("idle-timeout"), Metadata: map[string]string{}}
	vAssume(sess.SessionTimeout >= 0 && sess.IdleTimeout >= 0)
	m.sessions["s1"] = sess
	m.byMAC[vMAC.String()] = "s1"
	hasV4, hasV6 := ndBool("has-v4"), ndBool("has-v6")
	if hasV4 {
		sess.IPv4 = vV4
		m.byIP[vV4.String()] = "s1"
	}
	if hasV6 {
		sess.IPv6 = vV6
		m.byIP[vV6.String()] = "s1"
	}
	sess.BytesIn, sess.BytesOut = 1000, 2000
	ctx := context.Background()
	path := func(k int) {
		switch {
		case k < len(vReasons):
			_ = m.TerminateSession(ctx, "s1", vReasons[k])
		default:
			m.cleanupExpiredSessions()
		}
	}
	first := ndPick("end", len(vReasons)+1)
	if first == len(vReasons) {
		vTag("timeout-tick")
		adv := ndDuration("elapsed")
		vAssume(adv >= 0)
		vAdvance(int64(adv))
	}
	if c := ndPick("concurrent", len(vReasons)+2); c <= len(vReasons) {
		vTag("two-paths-at-once")
		alloc.during = func() { path(c) }
	}
	path(first)
	_, live := m.GetSession("s1")
	if live {
		// only the timeout tick may leave the session alive (nothing expired)
		vAssert(first == len(vReasons), "TerminateSession left the session registered")
		vAssert(len(alloc.released) == 0 && events == 0, "a session that stays alive lost an address")
		vReach("stays")
		return
	}
	check := func(when string) {
		if hasV4 {
			vAssert(alloc.released[vV4.String()] == 1, when+": the IPv4 address was not released exactly once")
		}
		if hasV6 {
			vAssert(alloc.released[vV6.String()] == 1, when+": the IPv6 address was not released exactly once")
		}
		_, byMAC := m.GetSessionByMAC(vMAC)
		_, by4 := m.GetSessionByIP(vV4)
		_, by6 := m.GetSessionByIP(vV6)
		vAssert(!byMAC && !by4 && !by6 && len(m.sessions) == 0 && len(m.byMAC) == 0 && len(m.byIP) == 0, when+": the session is still reachable by MAC or address")
		vAssert(events == 1, when+": not exactly one terminate event")
		vAssert(m.stats.TotalSessionsEnded == 1, when+": the session was counted as ended more than once")
	}
	check("after the session ended")
	path(ndPick("again", len(vReasons)+1))
	check("after the session was ended a second time")
	vReach("end")
}

func init() { vHarness["VerifC16_SubscriberEnd"] = VerifC16_SubscriberEnd }
