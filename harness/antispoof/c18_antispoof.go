//go:build verif

package antispoof

import (
	"bytes"
	"net"

	"github.com/cilium/ebpf"
	"go.uber.org/zap"
)

const (
	tcOK   = 0
	tcShot = 2
)

var vSubMAC = net.HardwareAddr{0x02, 0xaa, 0xbb, 0xcc, 0xdd, 0x01}

func verifManager() *Manager {
	m := &Manager{iface: "eth0", logger: zap.NewNop(), subscribers: map[uint64]*Binding{},
		bindings: &ebpf.Map{}, config: &ebpf.Map{}, stats: &ebpf.Map{}, ranges: &ebpf.Map{}}
	vBPFBindMap(m.bindings, "antispoof", "subscriber_bindings")
	vBPFBindMap(m.config, "antispoof", "antispoof_config")
	vBPFBindMap(m.stats, "antispoof", "antispoof_stats")
	vBPFBindMap(m.ranges, "antispoof", "allowed_ranges_v4")
	return m
}

// The policy written through the control plane is the one the kernel program enforces:
// reference verdict from the property text vs. the verdict of the real C program on the maps the real Go code wrote.
func VerifC18_Enforcement() { verifEnforcement(false) }

// Loose mode: forwarded iff the source lies in an allowed range (IPv4).
func VerifC18_Loose() { verifEnforcement(true) }

func verifEnforcement(loose bool) {
	vBPFMapsMode("null")
	m := verifManager()
	defMode := ModeLoose
	if !loose {
		defMode = []Mode{ModeDisabled, ModeStrict, ModeLogOnly}[ndPick("default-mode", 3)]
	}
	vAssume(m.SetMode(defMode) == nil) // writes the config map and becomes the mode of later bindings
	subMode := defMode
	// binding for the subscriber's MAC
	bindKind := ndPick("binding", 4) // 0 none, 1 v4, 2 v6, 3 both
	if loose && bindKind >= 2 {
		vAssume(false)
	}
	bound4 := net.IP(ndBytes("bound4", 4))
	bound6 := net.IP(ndBytes("bound6", 16))
	if bindKind == 1 || bindKind == 3 {
		vAssume(m.AddBinding(vSubMAC, bound4) == nil)
	}
	if bindKind == 2 || bindKind == 3 {
		vAssume(m.AddBindingV6(vSubMAC, bound6) == nil)
	}
	// optionally the operator changes the mode and the binding is written again (e.g. on lease renewal):
	// the binding must then carry the current mode
	if !loose && (bindKind == 1 || bindKind == 3) && ndPick("mode-change-then-readd", 2) == 1 {
		newMode := []Mode{ModeDisabled, ModeStrict, ModeLogOnly}[ndPick("new-mode", 3)]
		vAssume(m.SetMode(newMode) == nil)
		vAssume(m.AddBinding(vSubMAC, bound4) == nil)
		if bindKind == 3 {
			vAssume(m.AddBindingV6(vSubMAC, bound6) == nil)
		}
		defMode, subMode = newMode, newMode
	}
	// the reporting switch of the configuration is independent of the verdict: any value
	if ndPick("log-flag-arbitrary", 2) == 1 {
		var key uint32
		cfg := Config{DefaultMode: uint8(defMode), LogViolations: ndU8("log-violations")}
		vAssume(m.config.Put(&key, &cfg) == nil)
	}
	// optionally one allowed range (loose mode)
	haveRange := loose && ndPick("range", 2) == 1
	rangeIP := net.IP(ndBytes("range.ip", 4))
	plen := []int{8, 22, 32}[ndPick("range.plen", 3)]
	if haveRange {
		mask := net.CIDRMask(plen, 32)
		vAssume(m.AddAllowedRange(&net.IPNet{IP: rangeIP.Mask(mask), Mask: mask}) == nil)
	}
	// optionally the binding is removed again through the control plane
	removed := bindKind != 0 && ndPick("remove", 2) == 1
	if removed {
		vAssume(m.RemoveBinding(vSubMAC) == nil)
	}
	// the frame
	l := vParam("L", 54)
	n := []int{13, 14, 33, 34, 53, 54}[ndPick("len", 6)] // around every header boundary
	vAssume(n <= l)
	frame := ndBytes("frame", l)
	if loose {
		frame[12], frame[13] = 0x08, 0x00
	}
	fromSub := ndPick("from-subscriber", 2) == 1
	if fromSub {
		copy(frame[6:12], vSubMAC)
	} else {
		vAssume(frame[6] != vSubMAC[0]) // some other station
	}
	pkt := frame[:n]
	orig := append([]byte(nil), pkt...)
	verdict := vBPFRun("antispoof", "antispoof_ingress", "tc", pkt)
	out := vBPFPacket()
	vAssert(len(out) == len(orig) && bytes.Equal(out, orig), "antispoof program modified the frame")

	// ---- reference verdict (property text) ----
	hasBinding := fromSub && bindKind != 0 && !removed
	mode := defMode
	if hasBinding {
		mode = subMode
	}
	want := int32(tcOK)
	decided := true
	if n < 14 || mode == ModeDisabled || mode == ModeLogOnly {
		want = tcOK
	} else {
		etype := uint16(frame[12])<<8 | uint16(frame[13])
		switch {
		case etype == 0x0800 && n >= 34:
			src := frame[26:30]
			switch mode {
			case ModeStrict:
				vTag("strict-ipv4")
				diff := (src[0] ^ bound4[0]) | (src[1] ^ bound4[1]) | (src[2] ^ bound4[2]) | (src[3] ^ bound4[3])
				if !(hasBinding && (bindKind == 1 || bindKind == 3)) || diff != 0 {
					want = tcShot
				}
			case ModeLoose:
				vTag("loose-ipv4")
				if hasBinding && (bindKind == 1 || bindKind == 3) {
					vTag("with-ipv4-binding")
				}
				diff := byte(1)
				if haveRange {
					mask := net.CIDRMask(plen, 32)
					diff = 0
					for i := 0; i < 4; i++ {
						diff |= (src[i] ^ rangeIP[i]) & mask[i]
					}
				}
				if diff != 0 {
					want = tcShot
				}
			}
		case etype == 0x86DD && n >= 54:
			src := frame[22:38]
			if mode == ModeStrict {
				vTag("strict-ipv6")
				diff := byte(0)
				for i := 0; i < 16; i++ {
					diff |= src[i] ^ bound6[i]
				}
				if !(hasBinding && (bindKind == 2 || bindKind == 3)) || diff != 0 {
					want = tcShot
				}
			} else {
				decided = false // loose mode for IPv6: no range table exists; not part of the reference
			}
		default:
			want = tcOK // non-IP or truncated header
		}
	}
	if decided {
		if want == tcOK {
			vAssert(verdict == tcOK, "a frame the policy allows was dropped")
		} else {
			vAssert(verdict == tcShot, "a frame the policy forbids was forwarded")
		}
	}
	vReach("end")
}

func init() {
	vHarness["VerifC18_Enforcement"] = VerifC18_Enforcement
	vHarness["VerifC18_Loose"] = VerifC18_Loose
}
