//go:build verif

package antispoof

// C06: Go mirror structs of pkg/antispoof vs the C declarations in bpf/antispoof.c.
func VerifC06_Layout() {
	vBPFLayout("antispoof", "subscriber_binding", SubscriberBinding{})
	vBPFLayout("antispoof", "antispoof_config", Config{})
	vBPFLayout("antispoof", "antispoof_stats", Stats{})
	vBPFLayout("antispoof", "spoof_event", SpoofEvent{})
	vReach("end")
}

func init() { vHarness["VerifC06_Layout"] = VerifC06_Layout }
