//go:build verif

package ebpf

import "bytes"

func vInput(tag string) []byte {
	b := vParam("L", 64)
	n := ndInt(tag+".len", 0, b)
	return ndBytes(tag, b)[:n]
}

// verifBPFSafety: arbitrary frame of length 0..L, arbitrary map contents (every lookup may miss or hit arbitrary bytes).
// The IR interpreter reports every out-of-bounds packet/map/stack access and NULL dereference by itself; here:
// defined verdict, and a pass verdict leaves the frame untouched unless the program is specified to rewrite it.
func verifBPFSafety(prog, entry, kind string, pass int32, allowed []int32, passMayRewrite bool, maps string) {
	vBPFMapsMode(maps)
	pkt := vInput("pkt")
	orig := append([]byte(nil), pkt...)
	v := vBPFRun(prog, entry, kind, pkt)
	ok := false
	for _, a := range allowed {
		ok = ok || v == a
	}
	vAssert(ok, "program returned a verdict outside its defined set")
	out := vBPFPacket()
	if v == pass && !passMayRewrite {
		vAssert(len(out) == len(orig) && bytes.Equal(out, orig), "pass verdict but the frame handed on differs from the frame received")
	}
	vReach("end")
}

const (
	xdpAborted, xdpDrop, xdpPass, xdpTx, xdpRedirect = 0, 1, 2, 3, 4
	tcOK, tcShot                                      = 0, 2
)

func VerifC07_Antispoof() {
	verifBPFSafety("antispoof", "antispoof_ingress", "tc", tcOK, []int32{tcOK, tcShot}, false, "symbolic")
}
func VerifC07_QoSEgress() {
	verifBPFSafety("qos_ratelimit", "qos_egress_prog", "tc", tcOK, []int32{tcOK, tcShot}, false, "symbolic")
}
func VerifC07_QoSIngress() {
	verifBPFSafety("qos_ratelimit", "qos_ingress_prog", "tc", tcOK, []int32{tcOK, tcShot}, false, "symbolic")
}
func VerifC07_DHCPFastpath() {
	verifBPFSafety("dhcp_fastpath", "dhcp_fastpath_prog", "xdp", xdpPass, []int32{xdpPass, xdpTx, xdpDrop, xdpAborted}, false, "symbolic")
}
func VerifC07_NATIngress() {
	verifBPFSafety("nat44", "nat44_ingress", "tc", tcOK, []int32{tcOK, tcShot}, true, "symbolic")
}
func VerifC07_NATIngressNoFlows() {
	verifBPFSafety("nat44", "nat44_ingress", "tc", tcOK, []int32{tcOK, tcShot}, false, "null")
}
func VerifC07_NATEgressNoSubscribers() {
	verifBPFSafety("nat44", "nat44_egress", "tc", tcOK, []int32{tcOK, tcShot}, false, "null")
}

func init() {
	vHarness["VerifC07_Antispoof"] = VerifC07_Antispoof
	vHarness["VerifC07_QoSEgress"] = VerifC07_QoSEgress
	vHarness["VerifC07_QoSIngress"] = VerifC07_QoSIngress
	vHarness["VerifC07_DHCPFastpath"] = VerifC07_DHCPFastpath
	vHarness["VerifC07_NATIngress"] = VerifC07_NATIngress
	vHarness["VerifC07_NATIngressNoFlows"] = VerifC07_NATIngressNoFlows
	vHarness["VerifC07_NATEgressNoSubscribers"] = VerifC07_NATEgressNoSubscribers
}
