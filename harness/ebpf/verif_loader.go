//go:build verif

package ebpf

import (
	cebpf "github.com/cilium/ebpf"
	"go.uber.org/zap"
)

// VerifNewLoader builds a Loader whose maps are the engine's models of the maps of bpf/dhcp_fastpath.c
// (the real Load() needs the kernel). Exported for the harnesses of pkg/dhcp.
func VerifNewLoader() *Loader {
	l := &Loader{iface: "eth0", logger: zap.NewNop(),
		subscriberPools: &cebpf.Map{}, vlanSubscriberPools: &cebpf.Map{}, ipPools: &cebpf.Map{}, statsMap: &cebpf.Map{},
		serverConfigMap: &cebpf.Map{}, circuitIDMap: &cebpf.Map{}, circuitIDSubscribers: &cebpf.Map{}}
	vBPFBindMap(l.subscriberPools, "dhcp_fastpath", "subscriber_pools")
	vBPFBindMap(l.vlanSubscriberPools, "dhcp_fastpath", "vlan_subscriber_pools")
	vBPFBindMap(l.ipPools, "dhcp_fastpath", "ip_pools")
	vBPFBindMap(l.statsMap, "dhcp_fastpath", "stats_map")
	vBPFBindMap(l.serverConfigMap, "dhcp_fastpath", "server_config")
	vBPFBindMap(l.circuitIDMap, "dhcp_fastpath", "circuit_id_map")
	vBPFBindMap(l.circuitIDSubscribers, "dhcp_fastpath", "circuit_id_subscribers")
	return l
}
