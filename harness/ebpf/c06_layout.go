//go:build verif

package ebpf

// C06: Go mirror structs of pkg/ebpf vs the C declarations used by bpf/dhcp_fastpath.c.
func VerifC06_Layout() {
	vBPFLayout("dhcp_fastpath", "pool_assignment", PoolAssignment{})
	vBPFLayout("dhcp_fastpath", "vlan_key", VLANKey{})
	vBPFLayout("dhcp_fastpath", "ip_pool", IPPool{})
	vBPFLayout("dhcp_fastpath", "dhcp_stats", DHCPStats{})
	vBPFLayout("dhcp_fastpath", "dhcp_server_config", ServerConfig{})
	vBPFLayout("dhcp_fastpath", "circuit_id_key", CircuitIDKey{})
	vReach("end")
}

func init() { vHarness["VerifC06_Layout"] = VerifC06_Layout }

// Derived key "MAC to 64 bit": the Go function and the C program's inline helper (compiled from the current source
// through a probe wrapper) agree for every client hardware address of every length the DHCP library can deliver
// (chaddr[:hlen], hlen 6..16; the C side always reads the 16-byte chaddr field).
func VerifC06_MACKey() {
	chaddr := ndBytes("chaddr", 16)
	hlen := 6 + ndPick("hlen-6", 11)
	goKey := MACToUint64(chaddr[:hlen])
	cKey := vBPFCallU64("dhcp_fastpath.probe", "verif_mac_to_u64", chaddr, 0)
	vAssert(goKey == cKey, "MACToUint64 and the eBPF program's mac_to_u64 derive different keys for the same client hardware address")
	vReach("end")
}

func init() { vHarness["VerifC06_MACKey"] = VerifC06_MACKey }

// The circuit-id key: MakeCircuitIDKey (what the control plane writes) and extract_circuit_id_fixed (what the XDP
// program derives from the relayed request) agree byte for byte for every circuit-id of 1..32 arbitrary bytes.
func VerifC06_CircuitIDKey() {
	n := 1 + ndPick("cid-length-1", 32)
	cid := ndBytes("cid", 32)[:n]
	goKey := MakeCircuitIDKey(cid)
	msg := make([]byte, 304)
	copy(msg[236:240], []byte{0x63, 0x82, 0x53, 0x63})
	opts := msg[240:]
	opts[0], opts[1], opts[2] = 53, 1, 1
	opts[3], opts[4], opts[5], opts[6] = 82, byte(2+n), 1, byte(n)
	copy(opts[7:], cid)
	if 7+n < 64 {
		opts[7+n] = 255
	}
	if vBPFCallU64("dhcp_fastpath.probe", "verif_cid_found", msg, 0) == 0 {
		// the program derives no key from this circuit-id (it then looks the client up by MAC): nothing to agree on
		vReach("no-key")
		return
	}
	for w := 0; w < 4; w++ {
		cWord := vBPFCallU64("dhcp_fastpath.probe", "verif_cid_key_word", msg, uint64(w))
		var gWord uint64
		for i := 0; i < 8; i++ {
			gWord |= uint64(goKey[w*8+i]) << (8 * i)
		}
		vAssert(cWord == gWord, "MakeCircuitIDKey and the eBPF program's extract_circuit_id_fixed derive different keys for the same circuit-id")
	}
	vReach("end")
}

func init() { vHarness["VerifC06_CircuitIDKey"] = VerifC06_CircuitIDKey }

// circuit_id_map keys (HashCircuitID): two circuit-ids of equal length that differ in their last byte never share
// a key (FNV-1a: every step is a bijection of the running hash). A key derivation
// that ignores part of the identifier makes one key stand for two subscribers.
func VerifC20_CircuitIDHash() {
	n := []int{1, 31, 32, 33, 63, 64}[ndPick("length", 6)]
	a := ndBytes("cid", 64)[:n]
	b := append([]byte(nil), a...)
	pos := n - 1 // (a difference further left has to survive n-pos multiplications: beyond the solver's reach; the last byte is where a length cut-off shows)
	b[pos] = ndU8("other")
	vAssume(b[pos] != a[pos])
	vAssert(HashCircuitID(a) != HashCircuitID(b), "two circuit-ids that differ in one byte derive the same circuit_id_map key")
	vReach("end")
}

func init() { vHarness["VerifC20_CircuitIDHash"] = VerifC20_CircuitIDHash }
