//go:build verif

package ebpf

// C06: Go mirror structs of pkg/ebpf vs the C declarations used by bpf/dhcp_fastpath.c.
func VerifC06_Layout() {
	vBPFLayout("dhcp_fastpath", "pool_assignment", PoolAssignment{})
	vBPFLayout("dhcp_fastpath", "vlan_key", VLANKey{})
	vBPFLayout("dhcp_fastpath", "ip_pool", IPPool{})
	vBPFLayout("dhcp_fastpath", "dhcp_stats", DHCPStats{})
	vBPFLayout("dhcp_fastpath", "dhcp_server_config", ServerConfig{})
	vBPFLayout("dhcp_fastpath", "circuit_id_key", CircuitIDKey{})
	vReach("end")
}

func init() { vHarness["VerifC06_Layout"] = VerifC06_Layout }

// Derived key "MAC to 64 bit": the Go function and the C program's inline helper (compiled from the current source
// through a probe wrapper) agree for every client hardware address of every length the DHCP library can deliver
// (chaddr[:hlen], hlen 6..16; the C side always reads the 16-byte chaddr field).
func VerifC06_MACKey() {
	chaddr := ndBytes("chaddr", 16)
	hlen := 6 + ndPick("hlen-6", 11)
	goKey := MACToUint64(chaddr[:hlen])
	cKey := vBPFCallU64("dhcp_fastpath.probe", "verif_mac_to_u64", chaddr, 0)
	vAssert(goKey == cKey, "MACToUint64 and the eBPF program's mac_to_u64 derive different keys for the same client hardware address")
	vReach("end")
}

func init() { vHarness["VerifC06_MACKey"] = VerifC06_MACKey }
