//go:build verif

package ebpf

// C06: Go mirror structs of pkg/ebpf vs the C declarations used by bpf/dhcp_fastpath.c.
func VerifC06_Layout() {
	vBPFLayout("dhcp_fastpath", "pool_assignment", PoolAssignment{})
	vBPFLayout("dhcp_fastpath", "vlan_key", VLANKey{})
	vBPFLayout("dhcp_fastpath", "ip_pool", IPPool{})
	vBPFLayout("dhcp_fastpath", "dhcp_stats", DHCPStats{})
	vBPFLayout("dhcp_fastpath", "dhcp_server_config", ServerConfig{})
	vBPFLayout("dhcp_fastpath", "circuit_id_key", CircuitIDKey{})
	vReach("end")
}

func init() { vHarness["VerifC06_Layout"] = VerifC06_Layout }
