//go:build verif

package qinq

var vSubs = []string{"subA", "subB", "subC"}

func verifMapperInvariant(m *Mapper) {
	for v, s := range m.vlanToSubscriber {
		back, ok := m.subscriberToVLAN[s]
		vAssert(ok && back == v, "forward entry without the matching reverse entry")
	}
	for s, v := range m.subscriberToVLAN {
		back, ok := m.vlanToSubscriber[v]
		vAssert(ok && back == s, "reverse entry without the matching forward entry (a pair owned by two subscribers)")
	}
}

func verifPair(tag string) VLANPair {
	return VLANPair{STag: ndU16(tag + ".s"), CTag: ndU16(tag + ".c")}
}

// One inductive step: arbitrary mapper state (<=3 subscribers, arbitrary pairs) satisfying the bijection invariant,
// one operation with arbitrary arguments, invariant afterwards; other subscribers' mappings are undisturbed.
func VerifC20_MapperStep() {
	cfg := Config{Enabled: true, STagRanges: []VLANRange{{Start: ndU16("s0"), End: ndU16("s1")}}, CTagRange: VLANRange{Start: ndU16("c0"), End: ndU16("c1")}}
	m := NewMapper(cfg)
	var pre [3]VLANPair
	var has [3]bool
	for i, s := range vSubs {
		if ndBool(s + ".has") {
			p := verifPair(s)
			_, taken := m.vlanToSubscriber[p]
			vAssume(!taken)
			m.vlanToSubscriber[p] = s
			m.subscriberToVLAN[s] = p
			pre[i], has[i] = p, true
		}
	}
	op := ndPick("op", 3)
	who := ndPick("who", 3)
	arg := verifPair("arg")
	switch op {
	case 0:
		err := m.Register(arg, vSubs[who])
		if err == nil {
			got, ok := m.GetVLAN(vSubs[who])
			vAssert(ok && got == arg, "registered pair is returned by the reverse lookup")
			owner, ok2 := m.GetSubscriber(arg)
			vAssert(ok2 && owner == vSubs[who], "registered pair is returned by the forward lookup")
			if arg.STag > 0 {
				vAssert(cfg.STagRanges[0].Contains(arg.STag), "registered S-TAG outside the configured ranges")
			}
			if arg.CTag > 0 {
				vAssert(cfg.CTagRange.Contains(arg.CTag), "registered C-TAG outside the configured range")
			}
		} else {
			// a rejected registration has no effect
			for i, s := range vSubs {
				got, ok := m.GetVLAN(s)
				vAssert(ok == has[i] && (!ok || got == pre[i]), "rejected Register changed a mapping")
			}
		}
	case 1:
		m.Unregister(arg)
		_, ok := m.GetSubscriber(arg)
		vAssert(!ok, "unregistered pair still resolves")
	case 2:
		m.UnregisterSubscriber(vSubs[who])
		_, ok := m.GetVLAN(vSubs[who])
		vAssert(!ok, "unregistered subscriber still resolves")
	}
	verifMapperInvariant(m)
	// mappings of subscribers not addressed by the operation are undisturbed
	for i, s := range vSubs {
		touched := (op != 1 && i == who) || (op == 1 && has[i] && pre[i] == arg)
		if !touched {
			got, ok := m.GetVLAN(s)
			vAssert(ok == has[i] && (!ok || got == pre[i]), "operation disturbed another subscriber's mapping")
		}
	}
	vReach("end")
}

func init() { vHarness["VerifC20_MapperStep"] = VerifC20_MapperStep }
