//go:build verif

package nat

import (
	"bytes"
	"net"

	"github.com/cilium/ebpf"
)

// nat44_egress for a subscriber that holds a port block (written by the real AllocateNAT): a frame cut anywhere
// inside the L4 header is either fully translated or handed on untouched.
func VerifC07_NATEgressSubscriber() {
	vBPFMapsMode("null")
	m, _, _ := verifNATManager(false)
	m.subscriberNAT = &ebpf.Map{}
	vBPFBindMap(m.subscriberNAT, "nat44", "subscriber_nat")
	priv := net.IP{10, 0, 0, 1}
	_, err := m.AllocateNAT(priv)
	vAssume(err == nil)
	proto := []byte{6, 17, 1}[ndPick("proto", 3)]
	l := 14 + 20 + 20
	n := 14 + 20 + ndPick("l4len", 21) // 0..20 bytes of L4 header present
	f := ndBytes("frame", l)
	f[12], f[13] = 0x08, 0x00
	f[14] = 0x45
	f[20], f[21] = 0, 0 // not a fragment
	f[23] = proto
	copy(f[26:30], priv)
	pkt := f[:n]
	orig := append([]byte(nil), pkt...)
	v := vBPFRun("nat44", "nat44_egress", "tc", pkt)
	out := vBPFPacket()
	vAssert(v == 0 || v == 2, "undefined verdict")
	need := 20
	if proto != 6 {
		need = 8
	}
	if v == 0 && n-34 < need {
		vAssert(len(out) == len(orig) && bytes.Equal(out, orig), "pass verdict for a frame with a truncated L4 header, but the frame was (partly) rewritten")
	}
	vReach("end")
}

// C06: the key AllocateNAT writes must be the key nat44_egress derives from the packet of that subscriber.
func VerifC06_NATKey() {
	vBPFMapsMode("null")
	m, _, _ := verifNATManager(false)
	m.subscriberNAT = &ebpf.Map{}
	vBPFBindMap(m.subscriberNAT, "nat44", "subscriber_nat")
	priv := net.IP{10, ndU8("priv1"), ndU8("priv2"), ndU8("priv3")} // any address of 10/8 (the program only translates RFC 1918 sources)
	_, err := m.AllocateNAT(priv)
	vAssume(err == nil)
	f := make([]byte, 14+20+8)
	f[12], f[13] = 0x08, 0x00
	f[14] = 0x45
	f[23] = 17
	copy(f[26:30], priv)
	copy(f[30:34], []byte{8, 8, 8, 8})
	f[34], f[35], f[36], f[37] = 0x30, 0x39, 0, 53
	orig := append([]byte(nil), f...)
	v := vBPFRun("nat44", "nat44_egress", "tc", f)
	out := vBPFPacket()
	vAssert(v == 0 && !bytes.Equal(out[26:30], orig[26:30]), "nat44_egress does not translate the packet of a subscriber that AllocateNAT configured (key derivation disagreement)")
	vReach("end")
}

func init() {
	vHarness["VerifC07_NATEgressSubscriber"] = VerifC07_NATEgressSubscriber
	vHarness["VerifC06_NATKey"] = VerifC06_NATKey
}

// nat44_ingress for a flow whose session was evicted from the LRU session table while its reverse entry survived:
// the frame belongs to no live session and must be handed on untouched (or dropped), never half-translated.
func VerifC07_NATIngressEvictedSession() {
	vBPFMapsMode("null")
	m, _, _ := verifNATManager(false)
	m.subscriberNAT = &ebpf.Map{}
	vBPFBindMap(m.subscriberNAT, "nat44", "subscriber_nat")
	priv := net.IP{10, 0, 0, 1}
	_, err := m.AllocateNAT(priv)
	vAssume(err == nil)
	proto := []byte{6, 17}[ndPick("proto", 2)]
	l4 := 8
	if proto == 6 {
		l4 = 20
	}
	// outbound packet of the subscriber creates the session and the reverse entry
	f := make([]byte, 14+20+l4)
	f[12], f[13] = 0x08, 0x00
	f[14] = 0x45
	f[22], f[23] = 64, proto
	copy(f[26:30], priv)
	copy(f[30:34], []byte{8, 8, 8, 8})
	copy(f[34:36], ndBytes("sport", 2))
	f[36], f[37] = 0, 53
	if proto == 6 {
		f[46] = 0x50
		f[47] = 0x02 // SYN
	}
	v := vBPFRun("nat44", "nat44_egress", "tc", f)
	out := append([]byte(nil), vBPFPacket()...)
	vAssume(v == 0 && !bytes.Equal(out[26:30], priv)) // translated
	// the session table evicts the session; the reverse table still holds its entry
	vBPFMapClear("nat44", "nat_sessions")
	// the peer's reply arrives
	r := make([]byte, 14+20+l4)
	r[12], r[13] = 0x08, 0x00
	r[14] = 0x45
	r[22], r[23] = 64, proto
	copy(r[26:30], []byte{8, 8, 8, 8})
	copy(r[30:34], out[26:30]) // to the public address ...
	r[34], r[35] = 0, 53
	copy(r[36:38], out[34:36]) // ... and port the subscriber was translated to
	if proto == 6 {
		r[46] = 0x50
		r[47] = 0x12 // SYN-ACK
	}
	orig := append([]byte(nil), r...)
	v2 := vBPFRun("nat44", "nat44_ingress", "tc", r)
	got := vBPFPacket()
	vAssert(v2 == 0 || v2 == 2, "undefined verdict")
	if v2 == 0 {
		vAssert(len(got) == len(orig) && bytes.Equal(got, orig), "a frame that belongs to no live session was handed on modified")
	}
	vReach("end")
}

func init() { vHarness["VerifC07_NATIngressEvictedSession"] = VerifC07_NATIngressEvictedSession }
