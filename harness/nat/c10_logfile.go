//go:build verif

package nat

import (
	"net"

	"go.uber.org/zap"
)

// File-backed NAT log with size rotation: every allocation and release record that was logged ends up in exactly one
// of the log files (current or rotated) - none is lost at a rotation boundary, none is written twice.
// Bounds: K log events, each flushed one second after the previous, rotation threshold anywhere from "every record"
// to "never within K".
func VerifC10_LogRotation() {
	lg, err := NewLogger(LoggerConfig{Enabled: true, FilePath: "/log/nat.log", Format: LogFormatJSON, BufferSize: 64,
		BulkLogging: ndPick("bulk", 2) == 1, MaxFileSize: int64(1 + 7*ndPick("max-size", 5))}, zap.NewNop())
	vAssume(err == nil)
	k := vParam("K", 4)
	logged := 0
	for i := 0; i < k; i++ {
		a := &Allocation{PrivateIP: net.IP{10, 0, 0, byte(i + 1)}, PublicIP: net.IP{203, 0, 113, 1}, PortStart: uint16(1024 * (i + 1)), PortEnd: uint16(1024*(i+2) - 1), SubscriberID: uint32(i + 1)}
		if ndPick("event", 2) == 0 {
			lg.LogAllocation(a)
		} else {
			lg.LogDeallocation(a.PrivateIP, a.PublicIP, a.PortStart, 0)
		}
		logged++
		// rotated files are named by the second: the harness never lets two rotations fall into one second, so every
		// event is flushed on its own (one record per flush, at most one rotation per flush)
		{
			vAdvance(1e9) // rotated files are named by the second
			lg.Flush()
			lg.FlushPortBlocks()
		}
	}
	lines := 0
	for _, f := range vFSFiles() {
		for _, b := range vFSRead(f) {
			if b == '\n' {
				lines++
			}
		}
	}
	vAssert(lines == logged, "the log files do not hold exactly one record per allocation / release that was logged")
	vReach("end")
}

func init() { vHarness["VerifC10_LogRotation"] = VerifC10_LogRotation }
