//go:build verif

package nat

// C06: Go mirror structs of pkg/nat vs the C declarations in bpf/nat44.c.
func VerifC06_Layout() {
	vBPFLayout("nat44", "port_block", PortBlock{})
	vBPFLayout("nat44", "subscriber_nat", SubscriberNAT{})
	vBPFLayout("nat44", "nat_session", NATSession{})
	vBPFLayout("nat44", "eim_key", EIMKey{})
	vBPFLayout("nat44", "eim_mapping", EIMMapping{})
	vBPFLayout("nat44", "nat_stats", NATStats{})
	vBPFLayout("nat44", "nat_config", NATConfig{})
	vBPFLayout("nat44", "alg_config", ALGConfig{})
	vReach("end")
}

func init() { vHarness["VerifC06_Layout"] = VerifC06_Layout }
