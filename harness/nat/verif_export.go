//go:build verif

package nat

import (
	"net"

	"go.uber.org/zap"
)

// VerifNewManager: a NAT manager with one public address and 1024-port blocks, no kernel maps (exported for the
// harnesses of other packages).
func VerifNewManager() *Manager {
	m := &Manager{iface: "eth0", logger: zap.NewNop(), pool: make([]PoolEntry, 0), allocations: make(map[uint32]*Allocation),
		subscriberIDs: make(map[uint32]uint32), nextSubscriberID: 1, cleanupDone: make(chan struct{}),
		portRangeStart: 1024, portRangeEnd: 4095, portsPerSubscriber: 1024}
	vAssume(m.AddPublicIP(net.IP{203, 0, 113, 1}) == nil)
	return m
}

// VerifHolds reports whether a NAT block is allocated to the private address.
func (m *Manager) VerifHolds(ip net.IP) bool { return m.GetAllocation(ip) != nil }

// VerifBlocks is the number of allocated blocks.
func (m *Manager) VerifBlocks() int { return len(m.allocations) }
