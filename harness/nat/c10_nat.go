//go:build verif

package nat

import (
	"net"

	"go.uber.org/zap"
)

// vWriter is the log sink. While a flush is in the middle of a write, onWrite (if set) runs once: that is the
// point where another goroutine may log concurrently (Flush holds no buffer lock there).
type vWriter struct {
	lines   [][]byte
	onWrite func()
}

func (w *vWriter) Write(p []byte) (int, error) {
	if f := w.onWrite; f != nil {
		w.onWrite = nil
		f()
	}
	w.lines = append(w.lines, append([]byte(nil), p...))
	return len(p), nil
}

var vPriv = []net.IP{{10, 0, 0, 1}, {10, 0, 0, 2}, {10, 0, 0, 3}, {10, 0, 0, 4}}

func verifNATManager(symbolicGeometry bool) (*Manager, *Logger, *vWriter) {
	w := &vWriter{}
	lg := &Logger{writer: w, logger: zap.NewNop(), enabled: true, format: LogFormatJSON,
		buffer: make([]NATLogEntry, 0, 64), bufferSize: 64, flushCh: make(chan struct{}, 1), stopCh: make(chan struct{}),
		portBlockBuffer: make([]PortBlockLogEntry, 0, 64)}
	cfg := ndPick("cfg", 3) // (traditional log, 1 public) (bulk log, 2 public) (traditional log, 2 public)
	lg.bulkLogging = cfg == 1
	m := &Manager{iface: "eth0", logger: zap.NewNop(), pool: make([]PoolEntry, 0), allocations: make(map[uint32]*Allocation),
		subscriberIDs: make(map[uint32]uint32), nextSubscriberID: 1, cleanupDone: make(chan struct{}), natLogger: lg}
	if symbolicGeometry {
		m.portRangeStart = ndInt("rangeStart", 1, 65535)
		m.portRangeEnd = ndInt("rangeEnd", 1, 65535)
		m.portsPerSubscriber = ndInt("pps", 1, 65535)
		vAssume(m.portRangeStart <= m.portRangeEnd)
		total := m.portRangeEnd - m.portRangeStart + 1
		vAssume(m.portsPerSubscriber <= total)
		// keep pools small so that exhaustion and spill-over to the second address are reachable
		vAssume(total/m.portsPerSubscriber <= vParam("maxsubs", 3))
	} else {
		switch ndPick("geometry", 4) {
		case 0:
			m.portRangeStart, m.portRangeEnd, m.portsPerSubscriber = 1024, 4095, 1024
		case 1:
			m.portRangeStart, m.portRangeEnd, m.portsPerSubscriber = 1000, 1009, 4 // non-dividing
		case 2:
			m.portRangeStart, m.portRangeEnd, m.portsPerSubscriber = 63488, 65535, 1024 // 65535 edge
		case 3:
			m.portRangeStart, m.portRangeEnd, m.portsPerSubscriber = 10000, 20000, 4000 // non-dividing
		}
	}
	vAssume(m.AddPublicIP(net.IP{203, 0, 113, 1}) == nil)
	if cfg >= 1 {
		vAssume(m.AddPublicIP(net.IP{203, 0, 113, 2}) == nil)
	}
	return m, lg, w
}

func verifNATInvariant(m *Manager) {
	for k1, a := range m.allocations {
		vAssert(int(a.PortStart) >= m.portRangeStart && int(a.PortEnd) <= m.portRangeEnd, "block inside the configured port range")
		vAssert(a.PortStart <= a.PortEnd, "block does not wrap")
		vAssert(int(a.PortEnd)-int(a.PortStart)+1 == m.portsPerSubscriber, "block has the configured size")
		for k2, b := range m.allocations {
			if k1 < k2 && a.PublicIP.Equal(b.PublicIP) {
				vAssert(a.PortEnd < b.PortStart || b.PortEnd < a.PortStart, "two subscribers hold overlapping port blocks on one public address")
			}
		}
	}
}

func verifLogCount(lg *Logger) int { return len(lg.buffer) + len(lg.portBlockBuffer) }

// verifLastLog returns (event is assign?, private, public, start) of the newest record.
func verifLastLog(lg *Logger) (bool, string, string, uint16) {
	if lg.bulkLogging {
		e := lg.portBlockBuffer[len(lg.portBlockBuffer)-1]
		return e.EventType == "port_block_assign", e.PrivateIP, e.PublicIP, e.PortStart
	}
	e := lg.buffer[len(lg.buffer)-1]
	return e.EventType == "allocate", e.PrivateIP, e.PublicIP, e.PublicPort
}

func verifNATHistory(symbolicGeometry bool) {
	m, lg, _ := verifNATManager(symbolicGeometry)
	k := vParam("K", 4)
	nip := vParam("ips", 3)
	for i := 0; i < k; i++ {
		op := ndPick("op", 2*nip)
		ip := vPriv[op/2]
		before := verifLogCount(lg)
		held := m.GetAllocation(ip)
		if op%2 == 0 {
			a, err := m.AllocateNAT(ip)
			if err == nil {
				if held != nil {
					vAssert(a.PortStart == held.PortStart && a.PortEnd == held.PortEnd && a.PublicIP.Equal(held.PublicIP), "a holder keeps the same block until released")
					vAssert(verifLogCount(lg) == before, "no log record for a repeated allocation")
				} else {
					vAssert(verifLogCount(lg) == before+1, "exactly one log record per new allocation")
					assign, priv, pub, start := verifLastLog(lg)
					vAssert(assign && priv == ip.String() && pub == a.PublicIP.String() && start == a.PortStart, "allocation log record matches the allocation")
				}
			} else {
				vAssert(held == nil, "allocation fails only for a non-holder")
				// exhaustion only when every block of every address is taken
				free := 0
				for _, p := range m.pool {
					free += p.MaxSubscribers
				}
				vAssert(len(m.allocations) >= free, "exhaustion reported while blocks are free")
			}
		} else {
			vAssume(m.DeallocateNAT(ip) == nil)
			if held != nil {
				vAssert(verifLogCount(lg) == before+1, "exactly one log record per release")
				assign, priv, pub, start := verifLastLog(lg)
				vAssert(!assign && priv == ip.String() && pub == held.PublicIP.String() && start == held.PortStart, "release log record matches the released block")
			} else {
				vAssert(verifLogCount(lg) == before, "no log record when nothing was released")
			}
			vAssert(m.GetAllocation(ip) == nil, "released subscriber holds nothing")
		}
		verifNATInvariant(m)
	}
	vReach("end")
}

func VerifC10_History() { verifNATHistory(false) }

// A flush is in the middle of writing its batch (it holds no buffer lock there) while other callers allocate and
// release: every event must still reach the sink exactly once, in order.
func VerifC10_FlushWhileLogging() {
	m, lg, w := verifNATManager(false)
	lg.format = LogFormatSyslog
	var expect [][]byte
	record := func() {
		if lg.bulkLogging {
			expect = append(expect, lg.formatPortBlockEntry(lg.portBlockBuffer[len(lg.portBlockBuffer)-1]))
		} else {
			expect = append(expect, lg.formatEntry(lg.buffer[len(lg.buffer)-1]))
		}
	}
	flush := func() {
		if lg.bulkLogging {
			lg.FlushPortBlocks()
		} else {
			lg.Flush()
		}
	}
	for i := 0; i < 3; i++ {
		_, err := m.AllocateNAT(vPriv[i])
		vAssume(err == nil)
		record()
	}
	w.onWrite = func() {
		if _, err := m.AllocateNAT(vPriv[3]); err == nil {
			record()
			vAssume(m.DeallocateNAT(vPriv[3]) == nil)
			record()
		}
		vAssume(m.DeallocateNAT(vPriv[2]) == nil)
		record()
	}
	flush()
	flush()
	vAssert(len(w.lines) == len(expect), "every allocation/release event is written exactly once")
	for i := range expect {
		if i < len(w.lines) {
			vAssert(string(w.lines[i]) == string(expect[i]), "log line is the record of the event that produced it")
		}
	}
	vReach("end")
}

func VerifC10_HistorySymbolicGeometry() { verifNATHistory(true) }

func init() {
	vHarness["VerifC10_History"] = VerifC10_History
	vHarness["VerifC10_FlushWhileLogging"] = VerifC10_FlushWhileLogging
	vHarness["VerifC10_HistorySymbolicGeometry"] = VerifC10_HistorySymbolicGeometry
}

// Block sizes that are not powers of two, on a range holding `blocks` of them: the blocks handed to `blocks`
// subscribers (with one release and re-allocation in between) never overlap and stay inside the port range.
func VerifC10_DenseBlocks() {
	m, _, _ := verifNATManager(false)
	pps := []int{3, 5, 6, 7, 100, 1000}[ndPick("block-size", 6)]
	blocks := vParam("blocks", 5)
	m.portRangeStart, m.portsPerSubscriber = 10000, pps
	m.portRangeEnd = m.portRangeStart + blocks*pps - 1 + ndPick("slack", 2)*(pps-1) // exact fit, or a partial block at the end
	m.pool = m.pool[:0]
	vAssume(m.AddPublicIP(net.IP{203, 0, 113, 9}) == nil)
	ips := make([]net.IP, blocks)
	for i := range ips {
		ips[i] = net.IP{10, 0, 1, byte(i + 1)}
	}
	for i := 0; i < blocks-1; i++ {
		_, err := m.AllocateNAT(ips[i])
		vAssume(err == nil)
		verifNATInvariant(m)
	}
	// one subscriber leaves, two arrive
	vAssume(m.DeallocateNAT(ips[ndPick("leaves", blocks-1)]) == nil)
	_, err := m.AllocateNAT(ips[blocks-1])
	vAssert(err == nil, "exhaustion reported while blocks are free")
	verifNATInvariant(m)
	_, err = m.AllocateNAT(net.IP{10, 0, 2, 1})
	vAssert(err == nil, "exhaustion reported while blocks are free")
	verifNATInvariant(m)
	vReach("end")
}

func init() { vHarness["VerifC10_DenseBlocks"] = VerifC10_DenseBlocks }
