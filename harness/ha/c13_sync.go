//go:build verif

package ha

import (
	"net/http"
	"net/http/httptest"
	"strings"
	"time"

	"go.uber.org/zap"
)

var vIDs = []string{"s1", "s2", "s3", "s4"}

// verifSession builds a session record for id with arbitrary mutable content.
func verifSession(id, tag string) SessionState {
	return SessionState{SessionID: id, SubscriberID: "sub-" + id, MAC: "02:00:00:00:00:01", IP: "10.0.0.1",
		VLAN: ndInt(tag+".vlan", 0, 4094), State: "active", SessionType: "ipoe", LastActivity: time.Unix(1700000000+int64(ndPick(tag+".lastact", 2)), 0)}
}

func verifSameContent(a, b *SessionState) bool {
	return a.SessionID == b.SessionID && a.VLAN == b.VLAN && a.LastActivity.Equal(b.LastActivity) && a.SubscriberID == b.SubscriberID
}

// verifTableEquals: the standby's store and received table hold exactly `want`.
func verifTableEquals(s *HASyncer, store *InMemorySessionStore, want map[string]SessionState, what string) {
	got := store.GetAllSessions()
	vAssert(len(got) == len(want), what+": standby store has a different number of sessions than the active's table")
	for i := range got {
		w, ok := want[got[i].SessionID]
		vAssert(ok && verifSameContent(&got[i], &w), what+": standby store holds a session that differs from the active's")
	}
	recv := s.GetAllReceivedSessions()
	vAssert(len(recv) == len(want), what+": standby received-table has a different number of sessions than the active's table")
	for _, r := range recv {
		w, ok := want[r.SessionID]
		vAssert(ok && verifSameContent(r, &w), what+": standby received-table holds a session that differs from the active's")
	}
}

func verifStandby() (*HASyncer, *InMemorySessionStore) {
	store := NewInMemorySessionStore()
	cfg := DefaultSyncConfig()
	cfg.Role = RoleStandby
	cfg.NodeID = "standby"
	cfg.Partner = &PartnerInfo{NodeID: "active", Endpoint: "127.0.0.1:1"}
	cfg.RequestTimeout = 2 * time.Second
	return NewHASyncer(cfg, store, zap.NewNop()), store
}

// verifFullSync delivers one snapshot through performFullSync (engine: scripted HTTP response; native: real HTTP).
func verifFullSync(s *HASyncer, snapshot []SessionState) error {
	msg := &SyncMessage{Type: SyncTypeFull, Sessions: snapshot, NodeID: "active", SequenceNum: 7}
	body := vJSON(msg)
	if vSymbolic() {
		vHTTPNext(body)
		return s.performFullSync()
	}
	srv := httptest.NewServer(http.HandlerFunc(func(w http.ResponseWriter, r *http.Request) { w.Write(body) }))
	defer srv.Close()
	s.config.Partner.Endpoint = strings.TrimPrefix(srv.URL, "http://")
	return s.performFullSync()
}

// Immediately after a completed full synchronisation the standby's table equals the snapshot, whatever it held before
// (earlier full sync and stream messages), and stream messages are then applied in order.
func VerifC13_FullSyncThenStream() {
	s, store := verifStandby()
	// arbitrary prior state, produced the way the standby produces it: an earlier full sync
	var prior []SessionState
	nid := vParam("ids", 3)
	for i := 0; i < vParam("prior", 1); i++ {
		if c := ndPick("prior", nid+1); c > 0 {
			dup := false
			for _, p := range prior {
				dup = dup || p.SessionID == vIDs[c-1]
			}
			vAssume(!dup)
			prior = append(prior, verifSession(vIDs[c-1], "prior"))
		}
	}
	vAssume(verifFullSync(s, prior) == nil)
	// the snapshot
	want := map[string]SessionState{}
	var snap []SessionState
	for i := 0; i < 2; i++ {
		if c := ndPick("snap", nid+1); c > 0 {
			if _, dup := want[vIDs[c-1]]; dup {
				vAssume(false)
			}
			ss := verifSession(vIDs[c-1], "snap")
			want[ss.SessionID] = ss
			snap = append(snap, ss)
		}
	}
	vAssume(verifFullSync(s, snap) == nil)
	verifTableEquals(s, store, want, "after full sync")
	// stream: K messages applied in push order
	k := vParam("K", 2)
	for i := 0; i < k; i++ {
		id := vIDs[ndPick("id", vParam("ids", 3))]
		var typ SyncMessageType
		switch ndPick("msg", 3) {
		case 0:
			typ = SyncTypeAdd
		case 1:
			typ = SyncTypeUpdate
		case 2:
			typ = SyncTypeDelete
		}
		ss := verifSession(id, "m")
		msg := &SyncMessage{Type: typ, Sessions: []SessionState{ss}, NodeID: "active", SequenceNum: uint64(10 + i)}
		vAssume(s.handleSSEData(vJSON(msg)) == nil)
		if typ == SyncTypeDelete {
			delete(want, id)
		} else {
			want[id] = ss
		}
		verifTableEquals(s, store, want, "after stream message")
	}
	vReach("end")
}

func init() { vHarness["VerifC13_FullSyncThenStream"] = VerifC13_FullSyncThenStream }

// The whole push path: the ACTIVE's real PushChange and broadcast loop produce the stream (changes and a heartbeat
// in any order the loop's select may take them), the standby's real handler consumes it: every pushed change is
// applied, in push order, whatever the position of the heartbeat.
func VerifC13_PushPipeline() {
	standby, store := verifStandby()
	acfg := DefaultSyncConfig()
	acfg.Role = RoleActive
	acfg.NodeID = "active"
	active := NewHASyncer(acfg, NewInMemorySessionStore(), zap.NewNop())
	client := make(chan *SyncMessage, 100)
	active.sseClients["standby"] = client
	// the standby is in sync with an empty table
	vAssume(verifFullSync(standby, nil) == nil)
	want := map[string]SessionState{}
	k := vParam("K", 2)
	nid := vParam("ids", 2)
	// changes pushed earlier have been delivered already (the sequence counter is not at zero)
	earlier := ndPick("earlier-changes", 2)
	for i := 0; i < earlier; i++ {
		ss := verifSession(vIDs[0], "e")
		vAssume(active.PushChange(SyncTypeAdd, &ss) == nil)
		want[ss.SessionID] = ss
	}
	for i := 0; i < k; i++ {
		id := vIDs[ndPick("id", nid)]
		ss := verifSession(id, "m")
		switch ndPick("msg", 3) {
		case 0:
			vAssume(active.PushChange(SyncTypeAdd, &ss) == nil)
			want[id] = ss
		case 1:
			vAssume(active.PushChange(SyncTypeUpdate, &ss) == nil)
			want[id] = ss
		case 2:
			vAssume(active.PushChange(SyncTypeDelete, &ss) == nil)
			delete(want, id)
		}
	}
	// the broadcast loop drains the queue; its heartbeat ticker fires once, at any point relative to the queued changes
	vSelectNondet()
	go active.broadcastLoop()
	vRunPending()
	for {
		var msg *SyncMessage
		select {
		case msg = <-client:
		default:
		}
		if msg == nil {
			break
		}
		vAssume(standby.handleSSEData(vJSON(msg)) == nil)
	}
	verifTableEquals(standby, store, want, "after the pushed changes were streamed")
	vReach("end")
}

func init() { vHarness["VerifC13_PushPipeline"] = VerifC13_PushPipeline }
