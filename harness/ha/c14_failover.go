//go:build verif

package ha

import (
	"errors"
	"time"

	"go.uber.org/zap"
)

// Bounded histories of health events, operator commands, virtual-time advances (firing due timers) and evaluation
// ticks against the real FailoverController. Ghost state: since when the partner has been down without interruption.
func VerifC14_History() {
	cfg := DefaultFailoverConfig()
	cfg.GracePeriod = time.Duration(ndPick("grace", vParam("graces", 2))) * 5 * time.Second // no drain, or a 5 s drain before the role changes
	mon := &HealthMonitor{logger: zap.NewNop()}
	mon.health.Healthy = true
	c := NewFailoverController(cfg, "standby-node", RoleStandby, 1, mon, zap.NewNop())
	completed, failbacks, cbCalls := 0, 0, 0
	cbFailed := false
	c.OnFailoverEvent(func(ev FailoverEvent) {
		if ev.Type == FailoverEventCompleted {
			completed++
		}
		if ev.Type == FailoverEventFailbackCompleted {
			failbacks++
			vAssert(mon.health.Healthy, "failback completed while the partner is not healthy")
		}
	})
	var cbRole Role
	c.SetRoleChangeCallback(func(r Role) error {
		cbCalls++
		cbRole = r
		cbFailed = ndPick("callback-fails", 2) == 1 // outcome chosen when (and only when) the callback runs
		if cbFailed {
			return errors.New("callback failed")
		}
		return nil
	})
	start := time.Now()
	downSince := time.Duration(-1) // offset from start; -1 = partner not down
	spanAtRecovery := time.Duration(-1)
	// while the controller drains (sleeps) the partner may come back
	vOnSleep(func(d int64) {
		if ndPick("timers-fire-during-drain", 2) == 1 {
			// the drain takes its time: timers that come due meanwhile run (in their own goroutines)
			vAdvance(d)
			vFireDue()
			return
		}
		if ndPick("partner-recovers-during-drain", 2) == 1 {
			x := ndDuration("into-drain")
			vAssume(x >= 0 && int64(x) <= d)
			vAdvance(int64(x))
			if !mon.health.Healthy {
				mon.health.Healthy = true
				spanAtRecovery = time.Since(start) - downSince
				downSince = -1
			}
			c.handleHealthEvent(HealthEvent{Type: HealthEventPartnerUp, Timestamp: time.Now()})
		}
	})
	promotions := 0
	k := vParam("K", 4)
	for i := 0; i < k; i++ {
		roleBefore := c.CurrentRole()
		spanAtRecovery = -1
		forced := false
		cbBefore := cbCalls
		switch ndPick("event", 6) {
		case 0: // partner down
			if mon.health.Healthy {
				mon.health.Healthy = false
				downSince = time.Since(start)
			}
			c.handleHealthEvent(HealthEvent{Type: HealthEventPartnerDown, Timestamp: time.Now()})
		case 1: // partner up
			mon.health.Healthy = true
			downSince = -1
			c.handleHealthEvent(HealthEvent{Type: HealthEventPartnerUp, Timestamp: time.Now()})
		case 2: // time passes; due timers fire
			vAdvance(int64(ndDuration("dt")))
			vFireDue()
		case 3:
			c.evaluateState()
		case 4:
			forced = true
			vTag("force-failover")
			_ = c.ForceFailover("operator")
		case 5:
			vTag("force-failback")
			_ = c.ForceFailback("operator")
		}
		roleAfter := c.CurrentRole()
		if roleBefore != roleAfter {
			vAssert(cbCalls == cbBefore+1 && cbRole == roleAfter && !cbFailed, "reported role changed without a successful role-change callback for that role")
		}
		if roleBefore == RoleStandby && roleAfter == RoleActive {
			promotions++
			if !forced {
				// (a recovery during the drain comes too late to cancel, provided the full delay had elapsed before it)
				vAssert((downSince >= 0 && time.Since(start)-downSince >= cfg.FailoverDelay) || spanAtRecovery >= cfg.FailoverDelay, "standby promoted itself although the partner was not down continuously for the failover delay")
			}
		}
		if roleBefore == RoleActive && roleAfter == RoleStandby {
			vAssert(mon.health.Healthy, "failback while the partner is not healthy")
		}
		vAssert(completed == promotions, "number of completed events differs from the number of promotions")
		if c.State() == FailoverStateInProgress {
			vAssert(vTimersArmed() > 0, "controller rests in the in-progress state with no transition pending")
		}
		if c.State() == FailoverStatePending || c.State() == FailoverStateFailbackPending {
			vAssert(vTimersArmed() > 0, "controller waits for a timer that is not armed")
		}
	}
	vReach("end")
}

func init() { vHarness["VerifC14_History"] = VerifC14_History }
