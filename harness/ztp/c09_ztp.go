//go:build verif

package ztp

// vInput: a buffer of B arbitrary bytes with arbitrary length 0..B.
func vInput(tag string) []byte {
	b := vParam("B", 12)
	n := ndInt(tag+".len", 0, b)
	return ndBytes(tag, b)[:n]
}

// DHCP option 43 (vendor-specific) content from the network: parsing returns, within a number of steps linear in
// the input, a string that is a sub-slice of the input.
func VerifC09_ZTPVendorOptions() {
	data := vInput("opt43")
	s := parseVendorOptions(data)
	vAssert(len(s) <= len(data), "returned value longer than the option")
	vReach("end")
}

func init() { vHarness["VerifC09_ZTPVendorOptions"] = VerifC09_ZTPVendorOptions }
