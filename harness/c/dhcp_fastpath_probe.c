/* Wrappers exposing the inline key derivations of bpf/dhcp_fastpath.c (compiled together with the current source). */
__attribute__((noinline)) __u64 verif_mac_to_u64(unsigned char *mac, __u64 unused) { return mac_to_u64(mac); }
