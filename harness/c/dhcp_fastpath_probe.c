/* Wrappers exposing the inline key derivations of bpf/dhcp_fastpath.c (compiled together with the current source). */
__attribute__((noinline)) __u64 verif_mac_to_u64(unsigned char *mac, __u64 unused) { return mac_to_u64(mac); }

/* The circuit-id key the program derives from a BOOTP message (240 header bytes + 64 option bytes), one 8-byte
 * little-endian word at a time; all-ones if the program finds no usable circuit-id. */
__attribute__((noinline)) __u64 verif_cid_key_word(unsigned char *dhcp, __u64 word) {
	struct circuit_id_key key;
	if (!extract_circuit_id_fixed((void *)dhcp, (void *)(dhcp + 304), &key))
		return ~0ULL;
	__u64 w = 0;
	for (int i = 0; i < 8; i++)
		w |= (__u64)key.data[(word & 3) * 8 + i] << (8 * i);
	return w;
}

__attribute__((noinline)) __u64 verif_cid_found(unsigned char *dhcp, __u64 unused) {
	struct circuit_id_key key;
	return extract_circuit_id_fixed((void *)dhcp, (void *)(dhcp + 304), &key) ? 1 : 0;
}
