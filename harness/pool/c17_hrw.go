//go:build verif

package pool

import (
	"context"

	"go.uber.org/zap"
)

// Peer and subscriber names starting with "sym:" stand for arbitrary strings: the engine gives each an arbitrary
// 64-bit FNV value (see the hashString stub). Assumed: distinct names have distinct FNV values and no two combined
// scores tie (an FNV collision / score tie cannot be exhibited by replay; reported as an assumption).
var vPeers = []string{"sym:p1", "sym:p2", "sym:p3", "sym:p4", "sym:p5"}

const vSub = "sym:subscriber"

func verifAssumeDistinct(n int) {
	kh := hashString(vSub)
	for i := 0; i < n; i++ {
		for j := i + 1; j < n; j++ {
			vAssume(hashString(vPeers[i]) != hashString(vPeers[j]))
			vAssume(hashCombine(kh, vPeers[i]) != hashCombine(kh, vPeers[j]))
		}
		vAssume(hashCombine(kh, vPeers[i]) != 0)
	}
}

func verifPerm(n int, tag string) []string {
	out := make([]string, 0, n)
	used := make([]bool, n)
	for len(out) < n {
		c := ndPick(tag, n-len(out))
		for i := 0; i < n; i++ {
			if !used[i] {
				if c == 0 {
					used[i] = true
					out = append(out, vPeers[i])
					break
				}
				c--
			}
		}
	}
	return out
}

func verifPool(self string, nodes []string, healthy []bool) *PeerPool {
	hm := map[string]*peerHealth{}
	for i, id := range vPeers[:len(healthy)] {
		hm[id] = &peerHealth{healthy: healthy[i]}
	}
	return &PeerPool{nodeID: self, peerNodes: append([]string(nil), nodes...), peerHealthMap: hm, logger: zap.NewNop(), healthThreshold: 3}
}

func contains(xs []string, x string) bool {
	for _, y := range xs {
		if x == y {
			return true
		}
	}
	return false
}

// For every subscriber hash, every peer-name hash assignment, every configuration order, every shared health vector
// and every healthy evaluating node: one owner; the ranking starts with it and is a permutation; removing a peer or
// marking it unhealthy moves only that peer's subscribers.
func VerifC17_Ownership() {
	n := vParam("peers", 3)
	verifAssumeDistinct(n)
	base := vPeers[:n]
	perm := verifPerm(n, "order")
	owner := rendezvousHash(vSub, base)
	vAssert(contains(base, owner), "owner is not one of the peers")
	vAssert(rendezvousHash(vSub, perm) == owner, "owner depends on the order in which peers are configured")
	ranked := rendezvousRanked(vSub, append([]string(nil), perm...))
	vAssert(len(ranked) == n, "ranking is not a permutation of the peer set (length)")
	vAssert(ranked[0] == owner, "ranking does not start with the owner")
	for _, p := range base {
		vAssert(contains(ranked, p), "ranking is not a permutation of the peer set (missing peer)")
	}
	// removal
	x := ndPick("removed", n)
	pp := verifPool(base[0], perm, make([]bool, n))
	pp.RemovePeer(base[x])
	vAssert(len(pp.peerNodes) == n-1 && !contains(pp.peerNodes, base[x]), "RemovePeer did not remove exactly that peer")
	after := pp.GetOwner(vSub)
	if base[x] != owner {
		vAssert(after == owner, "removing a peer moved a subscriber that peer did not own")
	} else {
		vAssert(after != base[x], "removed peer still owns the subscriber")
	}
	pp.AddPeer(base[x])
	vAssert(pp.GetOwner(vSub) == owner, "re-adding the peer does not restore ownership")
	// shared health vector, two healthy evaluating nodes
	healthy := make([]bool, n)
	anyHealthy := false
	for i := range healthy {
		healthy[i] = ndPick("healthy", 2) == 1
		anyHealthy = anyHealthy || healthy[i]
	}
	vAssume(anyHealthy)
	var owners []string
	for i := 0; i < n; i++ {
		if healthy[i] {
			pl := verifPool(base[i], perm, healthy)
			owners = append(owners, pl.getHealthyOwner(vSub))
			// looking up the serving node must not disturb the node's peer set (a later recovery restores ownership)
			same := len(pl.peerNodes) == len(perm)
			for j := 0; same && j < len(perm); j++ {
				same = pl.peerNodes[j] == perm[j]
			}
			vAssert(same, "computing the serving node changed the node's peer set")
			vAssert(pl.GetOwner(vSub) == owner, "after a health-based lookup the node computes a different owner")
		}
	}
	for _, o := range owners {
		vAssert(o == owners[0], "two healthy nodes compute different owners under the same health vector")
	}
	ho := owners[0]
	for i := 0; i < n; i++ {
		if base[i] == ho {
			vAssert(healthy[i], "an unhealthy peer was chosen although a healthy one exists")
		}
	}
	allHealthy := true
	for _, h := range healthy {
		allHealthy = allHealthy && h
	}
	if allHealthy {
		vAssert(ho == owner, "with all peers healthy the serving node is not the owner")
	}
	for i := 0; i < n; i++ {
		if base[i] == owner && healthy[i] {
			vAssert(ho == owner, "marking a peer unhealthy moved a subscriber that peer did not own")
		}
	}
	vReach("end")
}

func init() { vHarness["VerifC17_Ownership"] = VerifC17_Ownership }

func verifRealPool(self string, peers []string) *PeerPool {
	p, err := NewPeerPool(PeerPoolConfig{NodeID: self, Peers: append([]string(nil), peers...), Network: "10.0.0.0/29", Gateway: "10.0.0.1"})
	vAssume(err == nil)
	return p
}

// Every order in which peers are configured or added: a node that was configured with all peers and a node that
// learned one of them at run time (AddPeer, before any health probe; or RemovePeer followed by AddPeer) route every
// subscriber to the same serving node - the owner.
func VerifC17_ConfiguredVsAdded() {
	n := vParam("peers", 3)
	verifAssumeDistinct(n)
	base := vPeers[:n]
	owner := rendezvousHash(vSub, base)
	self := base[ndPick("self", n)]
	configured := verifRealPool(self, base)
	late := ndPick("late", n)
	vAssume(base[late] != self)
	var initial []string
	for i, p := range base {
		if i != late {
			initial = append(initial, p)
		}
	}
	learned := verifRealPool(self, initial)
	learned.AddPeer(base[late])
	if ndPick("flap", 2) == 1 {
		learned.RemovePeer(base[late])
		learned.AddPeer(base[late])
	}
	// announcing a peer that is already known changes nothing
	learned.AddPeer(base[ndPick("announced-again", n)])
	vAssert(len(learned.peerNodes) == n, "adding a peer that is already present changed the size of the peer set")
	rk := rendezvousRanked(vSub, append([]string(nil), learned.peerNodes...))
	for i := range rk {
		for j := i + 1; j < len(rk); j++ {
			vAssert(rk[i] != rk[j], "ranking is not a permutation of the peer set (a peer is listed twice)")
		}
	}
	vAssert(configured.GetOwner(vSub) == owner && learned.GetOwner(vSub) == owner, "owner depends on how the peer set was built")
	vAssert(configured.getHealthyOwner(vSub) == owner, "a freshly configured node does not route to the owner")
	vAssert(learned.getHealthyOwner(vSub) == owner, "a node that learned a peer at run time routes its subscribers elsewhere than a node configured with it")
	vReach("end")
}

// A request is served from exactly one node's pool: a fallback node that served a subscriber while its owner looked
// unhealthy hands it back when the owner recovers - the next request entering there is answered by the owner.
func VerifC17_ServedByOne() {
	n := vParam("peers", 2)
	verifAssumeDistinct(n)
	base := vPeers[:n]
	if ndPick("prefix-names", 2) == 1 {
		// node ids of which one is a prefix of another (bng1 / bng10), listed in either order
		base = []string{"sym:bng10", "sym:bng1", "sym:bng2"}[:n]
		if ndPick("prefix-order", 2) == 1 {
			base[0], base[1] = base[1], base[0]
		}
		for i := 0; i < n; i++ {
			for j := i + 1; j < n; j++ {
				vAssume(hashString(base[i]) != hashString(base[j]))
				vAssume(hashCombine(hashString(vSub), base[i]) != hashCombine(hashString(vSub), base[j]))
			}
			vAssume(hashCombine(hashString(vSub), base[i]) != 0)
		}
	}
	owner := rendezvousHash(vSub, base)
	self := base[ndPick("self", n)]
	vAssume(self != owner)
	cfgPeers := base
	if ndPick("peers-exclude-self", 2) == 1 {
		// the usual configuration style: the peer list names the OTHER nodes (in the order given)
		cfgPeers = nil
		for _, b := range base {
			if b != self {
				cfgPeers = append(cfgPeers, b)
			}
		}
	}
	node := verifRealPool(self, cfgPeers)
	ctx := context.Background()
	// the owner looks unhealthy: the ranking's next healthy node serves (assumed to be this node)
	node.peerHealthMap[owner].healthy = false
	vAssume(node.getHealthyOwner(vSub) == self)
	r1, err := node.Allocate(ctx, vSub, nil)
	vAssume(err == nil)
	vAssert(r1.NodeID == self, "fallback allocation was not served locally")
	// the owner recovers
	node.peerHealthMap[owner].healthy = true
	vHTTPNext(vJSON(&AllocationResponse{IP: "10.0.0.6", SubscriberID: vSub, NodeID: owner}))
	r2, err := node.Allocate(ctx, vSub, nil)
	vAssume(err == nil)
	vObserve("url", vHTTPLastURL())
	vObserve("owner", owner)
	vObserve("self", self)
	if u := vHTTPLastURL(); u != "" {
		vAssert(u == "http://"+owner+"/pool/allocate", "the request was forwarded to a node other than the owner")
	}
	vAssert(r2.NodeID == owner, "after the owner recovered the fallback node still serves the subscriber from its own pool (two pools serve one subscriber)")
	vReach("end")
}

func init() {
	vHarness["VerifC17_ConfiguredVsAdded"] = VerifC17_ConfiguredVsAdded
	vHarness["VerifC17_ServedByOne"] = VerifC17_ServedByOne
}
