//go:build verif

package nexus

import "context"

var vNTEs = []string{"nteA", "nteB", "nteC"}

func verifVLANInvariant(v *VLANAllocator) {
	for id, a := range v.allocations {
		vAssert(a != nil && a.NTEID == id, "allocation stored under a different NTE id")
		vAssert(a.STag >= v.config.STagRange.Start && a.STag <= v.config.STagRange.End, "allocated S-TAG outside the configured range")
		vAssert(a.CTag >= v.config.CTagRange.Start && a.CTag <= v.config.CTagRange.End, "allocated C-TAG outside the configured range")
		owner, ok := v.sTagUsage[a.STag][a.CTag]
		vAssert(ok && owner == id, "allocation without the matching usage entry (pair owned by two NTEs)")
	}
	for s, usage := range v.sTagUsage {
		for c, id := range usage {
			a, ok := v.allocations[id]
			vAssert(ok && a.STag == s && a.CTag == c, "usage entry without the matching allocation")
		}
	}
}

// Bounded histories from the constructor state over small symbolic tag ranges.
func VerifC20_VLANHistory() {
	s0 := ndU16("s0")
	c0 := ndU16("c0")
	ws := uint16(ndInt("ws", 0, 1))
	wc := uint16(ndInt("wc", 0, 1))
	vAssume(s0 >= 1 && s0 <= 4000 && c0 >= 1 && c0 <= 4000)
	cfg := VLANAllocatorConfig{STagRange: VLANRange{Start: s0, End: s0 + ws}, CTagRange: VLANRange{Start: c0, End: c0 + wc}}
	v := NewVLANAllocator(cfg)
	k := vParam("K", 3)
	for i := 0; i < k; i++ {
		op := ndPick("op", 4)
		who := ndPick("who", vParam("ntes", 2))
		id := vNTEs[who]
		var before [3]*VLANAllocation
		for j, n := range vNTEs {
			before[j], _ = v.Get(n)
		}
		switch op {
		case 0:
			a, err := v.Allocate(id)
			if err == nil {
				if before[who] != nil {
					vAssert(a.STag == before[who].STag && a.CTag == before[who].CTag, "a holder keeps its pair")
				}
			} else {
				vAssert(len(v.allocations) >= (int(ws)+1)*(int(wc)+1), "exhaustion reported while pairs are free")
			}
		case 1:
			stag := ndU16("stag")
			_, _ = v.AllocateWithSTag(id, stag)
		case 2:
			v.Release(id)
			_, ok := v.Get(id)
			vAssert(!ok, "released NTE still holds a pair")
		case 3:
			nte := &NTE{ID: id, STag: ndU16("ls"), CTag: ndU16("lc")}
			_ = v.LoadFromStore(context.Background(), []*NTE{nte})
		}
		verifVLANInvariant(v)
		for j, n := range vNTEs {
			if j != who {
				now, _ := v.Get(n)
				vAssert((now == nil) == (before[j] == nil) && (now == nil || (now.STag == before[j].STag && now.CTag == before[j].CTag)), "operation on one NTE disturbed another NTE's pair")
			}
		}
	}
	vReach("end")
}

func init() { vHarness["VerifC20_VLANHistory"] = VerifC20_VLANHistory }

// One allocation from an arbitrary usage state of one S-TAG with W C-TAGs (any subset in use, each by its own NTE):
// a new NTE is given a pair nobody holds, inside the ranges, and allocation fails only when every pair is taken.
func VerifC20_VLANAllocateStep() {
	w := vParam("W", 4)
	s0 := ndU16("s0")
	c0 := ndU16("c0")
	vAssume(s0 >= 1 && s0 <= 4000 && c0 >= 1 && c0 <= 4000)
	cfg := VLANAllocatorConfig{STagRange: VLANRange{Start: s0, End: s0}, CTagRange: VLANRange{Start: c0, End: c0 + uint16(w) - 1}}
	v := NewVLANAllocator(cfg)
	used := 0
	for i := 0; i < w; i++ {
		if ndPick("in-use", 2) == 1 {
			id := "held-" + string(rune('a'+i))
			c := c0 + uint16(i)
			v.allocations[id] = &VLANAllocation{STag: s0, CTag: c, NTEID: id}
			if v.sTagUsage[s0] == nil {
				v.sTagUsage[s0] = map[uint16]string{}
			}
			v.sTagUsage[s0][c] = id
			used++
		}
	}
	verifVLANInvariant(v)
	var a *VLANAllocation
	var err error
	if ndPick("with-stag", 2) == 1 {
		a, err = v.AllocateWithSTag("newcomer", s0)
	} else {
		a, err = v.Allocate("newcomer")
	}
	if err != nil {
		vAssert(used == w, "exhaustion reported while pairs are free")
	} else {
		for id, h := range v.allocations {
			if id != "newcomer" {
				vAssert(!(h.STag == a.STag && h.CTag == a.CTag), "a new NTE was given a pair another NTE still holds")
			}
		}
	}
	verifVLANInvariant(v)
	vReach("end")
}

func init() { vHarness["VerifC20_VLANAllocateStep"] = VerifC20_VLANAllocateStep }
