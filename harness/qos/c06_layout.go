//go:build verif

package qos

// C06: Go mirror structs of pkg/qos vs the C declarations in bpf/qos_ratelimit.c.
func VerifC06_Layout() {
	vBPFLayout("qos_ratelimit", "token_bucket", TokenBucket{})
	vBPFLayout("qos_ratelimit", "qos_stats", QoSStats{})
	vReach("end")
}

func init() { vHarness["VerifC06_Layout"] = VerifC06_Layout }
