//go:build verif

package qos

import (
	"net"

	"github.com/cilium/ebpf"
	"github.com/codelaboratoryltd/bng/pkg/radius"
	"go.uber.org/zap"
)

const (
	tcOK   = 0
	tcShot = 2
	nano   = 1000000000
)

var vRates = []uint64{1000, 64000, 1000000, 100000000, 1000000000, 10000000000, 100000000000} // bit/s

func verifQoSManager() *Manager {
	m := &Manager{iface: "eth0", logger: zap.NewNop(), subscribers: map[uint32]*SubscriberQoS{},
		qosEgress: &ebpf.Map{}, qosIngress: &ebpf.Map{}, qosStatsMap: &ebpf.Map{}}
	vBPFBindMap(m.qosEgress, "qos_ratelimit", "qos_egress")
	vBPFBindMap(m.qosIngress, "qos_ratelimit", "qos_ingress")
	vBPFBindMap(m.qosStatsMap, "qos_ratelimit", "qos_stats_map")
	return m
}

func verifFrame(dst net.IP) []byte {
	f := make([]byte, 34)
	f[12], f[13] = 0x08, 0x00
	f[14] = 0x45
	copy(f[26:30], ndBytes("src", 4))
	copy(f[30:34], dst)
	return f
}

// The policy set through the control plane is the one the kernel program enforces: a packet to the subscriber's
// address finds the bucket SetSubscriberQoS wrote (rate, burst), a rate of 0 never drops.
func VerifC19_PolicyEnforced() {
	vBPFMapsMode("null")
	m := verifQoSManager()
	ip := net.IP(ndBytes("ip", 4))
	rate := vRates[ndPick("rate", len(vRates))]
	if ndPick("unlimited", 2) == 1 {
		rate = 0
	}
	burst := ndU32("burst")
	vAssume(burst >= 1)
	// the other direction has its own rate (possibly unlimited)
	up := vRates[ndPick("up-rate", len(vRates))]
	if ndPick("up-unlimited", 2) == 1 {
		up = 0
	}
	vAssume(m.SetSubscriberQoS(&SubscriberQoS{IP: ip, DownloadBPS: rate, UploadBPS: up, BurstBytes: burst}) == nil)
	size := ndU32("size")
	vAssume(size >= 1 && size <= 65535)
	vBPFSkbLen(size)
	vBPFNow(ndU64("now"))
	v := vBPFRun("qos_ratelimit", "qos_egress_prog", "tc", verifFrame(ip))
	// after the first packet the bucket stored under the subscriber's key has been touched iff the key matched
	var tb TokenBucket
	key := ipToKey(ip)
	found := m.qosEgress.Lookup(&key, &tb) == nil
	if rate == 0 {
		vAssert(v == tcOK, "rate 0 (unlimited) dropped a packet")
		vAssert(!found || tb.RateBPS == 0, "an unlimited direction is limited by a stale bucket")
	} else {
		vAssert(found, "a limited direction has no bucket under the subscriber's key (its traffic is not limited at all)")
		vAssert(tb.RateBPS == rate && tb.BurstBytes == burst, "bucket under the subscriber's key does not carry the configured policy")
		// the bucket starts full: the first packet passes iff it fits into the burst, and the program must have used THIS bucket
		if size <= burst {
			vAssert(v == tcOK && tb.Tokens == uint64(burst-size), "first packet within the burst was not admitted from the subscriber's bucket (key mismatch between control plane and program?)")
		} else {
			vAssert(v == tcShot, "a packet larger than the burst was admitted")
		}
	}
	vReach("end")
}

// One step of the real token bucket from an arbitrary state, compared with the reference bucket of the property:
//   q = floor(elapsed * bytes_per_second / 1e9);  tokens' = min(burst, tokens + q);  admit iff tokens' >= size.
// The program's refill expression and the reference's are the same term, so the solver only has to compare the
// control structure (capping, admission, bookkeeping). From "code == reference" the window bound
//   admitted[t_i,t_j] <= burst + rate*(t_j-t_i)   follows by the floor lemma (q*1e9 <= elapsed*bps), see DESIGN.md.
// The no-starvation clause additionally needs the fractional credit (elapsed*bps mod 1e9) to survive the step.
func VerifC19_BucketStep() {
	vBPFMapsMode("null")
	m := verifQoSManager()
	ip := net.IP{10, 1, 2, 3}
	rate := vRates[ndPick("rate", len(vRates))]
	bps := rate / 8
	burst := ndU32("burst")
	vAssume(burst >= 1)
	pre := TokenBucket{Tokens: ndU64("tokens"), LastUpdate: ndU64("last"), RateBPS: rate, BurstBytes: burst}
	vAssume(pre.Tokens <= uint64(burst))
	now := ndU64("now")
	vAssume(now >= pre.LastUpdate)
	elapsed := now - pre.LastUpdate
	key := ipToKey(ip)
	vAssume(m.qosEgress.Put(&key, &pre) == nil)
	size := ndU32("size")
	vAssume(size >= 1 && size <= 65535)
	vBPFSkbLen(size)
	vBPFNow(now)
	v := vBPFRun("qos_ratelimit", "qos_egress_prog", "tc", verifFrame(ip))
	var post TokenBucket
	vAssume(m.qosEgress.Lookup(&key, &post) == nil)
	vAssert(v == tcOK || v == tcShot, "undefined verdict")
	vAssert(post.RateBPS == rate && post.BurstBytes == burst, "the step changed the policy fields")
	// reference
	product := elapsed * bps
	q := product / nano
	refill := pre.Tokens + q
	if refill > uint64(burst) {
		refill = uint64(burst)
	}
	if refill >= uint64(size) {
		vAssert(v == tcOK && post.Tokens == refill-uint64(size), "a packet covered by the refilled bucket was not admitted at its exact cost")
	} else {
		vAssert(v == tcShot && post.Tokens == refill, "a packet exceeding the refilled bucket was admitted, or tokens were consumed by a dropped packet")
	}
	vAssert(post.Tokens <= uint64(burst), "tokens exceed the burst after a step")
	vAssert(post.LastUpdate <= now, "last_update moved into the future")
	// the refill product must be the mathematical product (no 64-bit wrap-around)
	if bps != 0 && elapsed > (1<<64-1)/bps {
		vTag("refill-product-overflows")
		vAssert(false, "elapsed*rate overflows 64 bits: the refill after a long gap is computed modulo 2^64")
	} else if pre.Tokens+q < uint64(burst) {
		// below the cap no credit may be lost: the remainder of the division has to be carried (in last_update)
		vTag("below-cap")
		carried := (now - post.LastUpdate) * bps
		vAssert(carried == product%nano, "the step dropped the fractional credit (elapsed*rate mod 1e9): it accumulates to starvation at low rate / high packet rate")
	}
	vReach("end")
}

func init() {
	vHarness["VerifC19_PolicyEnforced"] = VerifC19_PolicyEnforced
	vHarness["VerifC19_BucketStep"] = VerifC19_BucketStep
}

// Bindings of a named policy take effect exactly as written, also when the same name is applied again after the
// policy was redefined (rate, burst or priority changed): the bucket in the map carries the current definition.
func VerifC19_PolicyReapply() {
	vBPFMapsMode("null")
	m := verifQoSManager()
	pm := radius.NewPolicyManager()
	m.policyMgr = pm
	ip := net.IP{10, 1, 2, 3}
	r1 := vRates[ndPick("rate1", 3)]
	vAssume(pm.AddPolicy(&radius.QoSPolicy{Name: "gold", DownloadBPS: r1, UploadBPS: r1, BurstSize: ndU32("burst1"), Priority: ndU8("prio1") & 7}) == nil)
	vAssume(m.SetSubscriberPolicy(ip, "gold") == nil)
	// the operator redefines the policy under the same name: arbitrary new burst and priority, same or new rate
	r2 := r1
	if ndPick("rate-changes", 2) == 1 {
		r2 = vRates[3]
	}
	b2, p2 := ndU32("burst2"), ndU8("prio2")&7
	vAssume(b2 >= 1)
	vAssume(pm.AddPolicy(&radius.QoSPolicy{Name: "gold", DownloadBPS: r2, UploadBPS: r2, BurstSize: b2, Priority: p2}) == nil)
	vAssume(m.SetSubscriberPolicy(ip, "gold") == nil)
	var tb TokenBucket
	key := ipToKey(ip)
	vAssume(m.qosEgress.Lookup(&key, &tb) == nil)
	vAssert(tb.RateBPS == r2 && tb.BurstBytes == b2 && tb.Priority == p2, "the bucket enforced for the subscriber does not carry the policy as currently defined")
	vReach("end")
}

func init() { vHarness["VerifC19_PolicyReapply"] = VerifC19_PolicyReapply }
