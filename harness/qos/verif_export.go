//go:build verif

package qos

import (
	"net"

	"github.com/codelaboratoryltd/bng/pkg/radius"
)

// VerifNewManager: a QoS manager over the engine's models of the qos_ratelimit maps (exported for the harnesses of
// other packages).
func VerifNewManager(pm *radius.PolicyManager) *Manager {
	m := verifQoSManager()
	m.policyMgr = pm
	return m
}

// VerifHolds reports whether any QoS state (userspace record or kernel map entry) exists for ip.
func (m *Manager) VerifHolds(ip net.IP) bool {
	_, ok := m.subscribers[ipToKey(ip.To4())]
	return ok
}

// VerifMapEntries is the number of live entries in the egress+ingress rate-limit maps.
func VerifMapEntries() int {
	return vBPFMapLive("qos_ratelimit", "qos_egress") + vBPFMapLive("qos_ratelimit", "qos_ingress")
}
