//go:build verif

package dhcpv6

import (
	"net"
	"strconv"

	"go.uber.org/zap"
)

var vDUIDs = [][]byte{{0, 3, 0, 1, 0xaa}, {0, 3, 0, 1, 0xbb}, {0, 3, 0, 1, 0xcc}}

func verifV6Server(nAddr, nPfx int) *Server {
	s := &Server{iface: "eth0", conn: &net.UDPConn{}, logger: zap.NewNop(),
		serverDUID: &DUID{Type: DUIDTypeLL, Data: []byte{0, 1, 2, 0, 0, 0, 0, 1}}, leases: map[string]*Lease{},
		preferredLifetime: 3600, validLifetime: 7200}
	anet := &net.IPNet{IP: net.IP{0x20, 1, 0xd, 0xb8, 0, 1, 0, 0, 0, 0, 0, 0, 0, 0, 0, 0}, Mask: net.CIDRMask(64, 128)}
	ap := &AddressPool{network: anet, preferredLifetime: 3600, validLifetime: 7200, allocated: map[string]net.IP{}}
	for i := 1; i <= nAddr; i++ {
		ip := net.IP{0x20, 1, 0xd, 0xb8, 0, 1, 0, 0, 0, 0, 0, 0, 0, 0, 0, byte(i)}
		ap.available = append(ap.available, ip)
	}
	s.addressPool = ap
	pnet := &net.IPNet{IP: net.IP{0x20, 1, 0xd, 0xb8, 1, 0, 0, 0, 0, 0, 0, 0, 0, 0, 0, 0}, Mask: net.CIDRMask(60, 128)}
	pp := &PrefixPool{basePrefix: pnet, delegationLength: 62, preferredLifetime: 3600, validLifetime: 7200, allocated: map[string]*net.IPNet{}}
	for i := 0; i < nPfx; i++ {
		ip := net.IP{0x20, 1, 0xd, 0xb8, 1, 0, 0, byte(i << 2), 0, 0, 0, 0, 0, 0, 0, 0}
		pp.available = append(pp.available, &net.IPNet{IP: ip, Mask: net.CIDRMask(62, 128)})
	}
	s.prefixPool = pp
	return s
}

func verifV6Invariant(s *Server) {
	// address pool: free list and holders pairwise distinct, all inside the pool network
	var seen []net.IP
	for _, ip := range s.addressPool.available {
		seen = append(seen, ip)
	}
	for _, ip := range s.addressPool.allocated {
		seen = append(seen, ip)
	}
	for i := range seen {
		vAssert(s.addressPool.network.Contains(seen[i]), "address outside the serving pool")
		for j := i + 1; j < len(seen); j++ {
			vAssert(!seen[i].Equal(seen[j]), "one address is in the pool twice (two holders, or held and free)")
		}
	}
	var pseen []*net.IPNet
	pseen = append(pseen, s.prefixPool.available...)
	for _, p := range s.prefixPool.allocated {
		pseen = append(pseen, p)
	}
	for i := range pseen {
		vAssert(s.prefixPool.basePrefix.Contains(pseen[i].IP), "delegated prefix outside the serving pool")
		for j := i + 1; j < len(pseen); j++ {
			vAssert(!pseen[i].IP.Equal(pseen[j].IP), "one prefix is in the pool twice (two holders, or held and free)")
		}
	}
	// bindings: a lease's value is what the pool assigned to that client, so no two clients share one
	for duid, l := range s.leases {
		if l.Address != nil {
			got, ok := s.addressPool.allocated[duid]
			vAssert(ok && got.Equal(l.Address), "lease address is not the pool's assignment for that client")
		}
		if l.Prefix != nil {
			got, ok := s.prefixPool.allocated[duid]
			vAssert(ok && got.IP.Equal(l.Prefix.IP), "lease prefix is not the pool's assignment for that client")
		}
	}
}

// verifV6Msg builds a message from a client with arbitrary header fields and a chosen option layout.
func verifV6Msg(s *Server, mtype uint8, who int, withIANA, withIAPD, goodServerID, rapid bool) *Message {
	m := &Message{Type: mtype}
	copy(m.TransactionID[:], ndBytes("xid", 3))
	m.Options = append(m.Options, MakeClientIDOption(vDUIDs[who]))
	if goodServerID {
		m.Options = append(m.Options, MakeServerIDOption(s.serverDUID))
	} else if ndPick("foreignServerID", 2) == 1 {
		m.Options = append(m.Options, MakeServerIDOption(&DUID{Type: DUIDTypeLL, Data: []byte{9, 9}}))
	}
	if withIANA {
		m.Options = append(m.Options, MakeIANAOption(&IANA{IAID: ndU32("iaid")}))
	}
	if withIAPD {
		m.Options = append(m.Options, MakeIAPDOption(&IAPD{IAID: ndU32("iaid-pd")}))
	}
	if rapid {
		m.Options = append(m.Options, Option{Code: OptRapidCommit})
	}
	return m
}

var vV6Types = []uint8{MsgTypeSolicit, MsgTypeRequest, MsgTypeRenew, MsgTypeRebind, MsgTypeConfirm, MsgTypeRelease, MsgTypeDecline}

// replyAddress extracts the address acknowledged in a reply (nil if none).
func verifReplyAddr(raw []byte) net.IP {
	m, err := ParseMessage(raw)
	if err != nil {
		return nil
	}
	for _, o := range m.GetAllOptions(OptIANA) {
		ia, err := ParseIANA(o.Data)
		if err != nil {
			continue
		}
		for _, io := range ia.Options {
			if io.Code == OptIAAddr {
				if a, err := ParseIAAddress(io.Data); err == nil {
					return a.Address
				}
			}
		}
	}
	return nil
}

// All histories of K messages from `clients` clients over a pool of 2 addresses and 2 prefixes.
func VerifC02_V6History() {
	s := verifV6Server(2, 2)
	k := vParam("K", 2)
	clients := vParam("clients", 2)
	addr := &net.UDPAddr{IP: net.IP{0xfe, 0x80, 0, 0, 0, 0, 0, 0, 0, 0, 0, 0, 0, 0, 0, 1}, Port: 546}
	for i := 0; i < k; i++ {
		who := ndPick("who", clients)
		ti := ndPick("type", len(vV6Types))
		layout := 2
		if vV6Types[ti] != MsgTypeRelease && vV6Types[ti] != MsgTypeDecline {
			layout = ndPick("layout", 3) // 0: IA_NA  1: IA_PD  2: both
		}
		goodSID := vV6Types[ti] != MsgTypeRequest || ndPick("serverid", 2) == 0
		rapid := ti == 0 && ndPick("rapid", 2) == 1
		m := verifV6Msg(s, vV6Types[ti], who, layout == 0 || layout == 2, layout == 1 || layout == 2, goodSID, rapid)
		duid := string(vDUIDs[who])
		var heldAddr net.IP
		if l, ok := s.leases[duid]; ok && l.Address != nil {
			heldAddr = l.Address
		}
		nsent := len(vNetSent())
		s.handleMessage(m, addr)
		verifV6Invariant(s)
		sent := vNetSent()
		if len(sent) > nsent && vSymbolic() {
			if a := verifReplyAddr(sent[len(sent)-1]); a != nil {
				for other, ip := range s.addressPool.allocated {
					if other != duid {
						vAssert(!ip.Equal(a), "reply carries an address that is assigned to a different client")
					}
				}
				if heldAddr != nil && (vV6Types[ti] == MsgTypeRenew || vV6Types[ti] == MsgTypeRebind || vV6Types[ti] == MsgTypeRequest) {
					vAssert(a.Equal(heldAddr), "a client renewing its own binding was answered with a different address")
				}
			}
		}
		if vV6Types[ti] == MsgTypeRelease {
			_, still := s.leases[duid]
			vAssert(!still, "released client still has a binding")
		}
	}
	vReach("end")
}

// C09: arbitrary bytes through the parser and the dispatcher (server holding one binding).
func VerifC09_V6Datagram() {
	s := verifV6Server(2, 1)
	addr := &net.UDPAddr{IP: net.IP{0xfe, 0x80, 0, 0, 0, 0, 0, 0, 0, 0, 0, 0, 0, 0, 0, 1}, Port: 546}
	s.handleMessage(verifV6Msg(s, MsgTypeRequest, 0, true, false, true, false), addr)
	b := vParam("B", 24)
	n := ndInt("len", 0, b)
	data := ndBytes("data", b)[:n]
	msg, err := ParseMessage(data)
	if err == nil {
		s.handleMessage(msg, addr)
		vReach("handled")
	}
	vReach("end")
}

// The pools the constructors build contain only in-range, pairwise distinct values (small pools are built completely).
func VerifC02_V6PoolConstruct() {
	cidrs := []string{"2001:db8:77::/126", "2001:db8:77::/125", "2001:db8:77::10/124", "2001:db8:77::/120"}
	c := cidrs[ndPick("cidr", len(cidrs))]
	p, err := NewAddressPool(c, 3600, 7200)
	vAssume(err == nil)
	for i, ip := range p.available {
		vAssert(p.network.Contains(ip), "address pool was built with an address outside its network")
		for j := i + 1; j < len(p.available); j++ {
			vAssert(!ip.Equal(p.available[j]), "address pool was built with a duplicate address")
		}
	}
	// drain the pool: every client gets an in-range address, then exhaustion
	for i := 0; i <= len(p.available)+1 && i < 20; i++ {
		ip := p.Allocate(string([]byte{'c', byte(i)}))
		if ip != nil {
			vAssert(p.network.Contains(ip), "client was given an address outside the serving pool")
		}
	}
	pcidrs := []struct {
		c string
		l uint8
	}{{"2001:db8:100::/60", 62}, {"2001:db8:100::/61", 64}, {"2001:db8:f0::/62", 63}}
	pc := pcidrs[ndPick("pcidr", len(pcidrs))]
	pp, err := NewPrefixPool(pc.c, pc.l, 3600, 7200)
	vAssume(err == nil)
	for i, pf := range pp.available {
		ones, _ := pf.Mask.Size()
		vAssert(ones == int(pc.l) && pp.basePrefix.Contains(pf.IP), "prefix pool was built with a prefix outside its base or of the wrong length")
		for j := i + 1; j < len(pp.available); j++ {
			vAssert(!pf.IP.Equal(pp.available[j].IP), "prefix pool was built with a duplicate prefix")
		}
	}
	vAssert(len(pp.available) == 1<<(int(pc.l)-(128-len(pp.basePrefix.Mask)*8+maskOnes(pp.basePrefix.Mask))), "prefix pool does not contain every delegable prefix")
	vReach("end")
}

// Every prefix-pool geometry with up to `bits` index bits starting at any bit position 44..63 (index fields inside
// one byte, ending on a byte boundary, and straddling one): the delegable prefixes are pairwise distinct, inside the
// base prefix, of the delegated length, and complete; clients draining the pool get pairwise distinct prefixes.
func VerifC02_V6PrefixPoolGeometry() {
	ones := 44 + ndPick("base-length", 20)
	bits := 1 + ndPick("index-bits", vParam("bits", 5))
	dl := ones + bits
	vAssume(dl <= 64)
	pp, err := NewPrefixPool("2001:db8::/"+strconv.Itoa(ones), uint8(dl), 3600, 7200)
	vAssume(err == nil)
	vAssert(len(pp.available) == 1<<bits, "prefix pool does not contain every delegable prefix")
	for i, pf := range pp.available {
		o, _ := pf.Mask.Size()
		vAssert(o == dl && pp.basePrefix.Contains(pf.IP), "prefix pool was built with a prefix outside its base or of the wrong length")
		for j := i + 1; j < len(pp.available); j++ {
			vAssert(!pf.IP.Equal(pp.available[j].IP), "prefix pool was built with a duplicate prefix (two clients would be delegated the same prefix)")
		}
	}
	vReach("end")
}

func maskOnes(m net.IPMask) int {
	ones, bits := m.Size()
	return ones - (128 - bits)
}

func init() {
	vHarness["VerifC02_V6PoolConstruct"] = VerifC02_V6PoolConstruct
	vHarness["VerifC02_V6PrefixPoolGeometry"] = VerifC02_V6PrefixPoolGeometry
	vHarness["VerifC02_V6History"] = VerifC02_V6History
	vHarness["VerifC09_V6Datagram"] = VerifC09_V6Datagram
}
