//go:build verif

package radius

import (
	"bytes"
	"context"
	"crypto/md5"
	"encoding/binary"
	"net"
	"sync/atomic"
	"time"

	"go.uber.org/zap"
)

const vSecret = "s3cr3t"

// verifDeliver hands the datagrams to the real receive loop and returns what the server transmitted.
// Engine: scripted UDP socket. Native replay: real loopback sockets.
func verifDeliver(s *CoAServer, datagrams [][]byte) [][]byte {
	ctx := context.Background()
	if vSymbolic() {
		s.conn = &net.UDPConn{}
		for _, d := range datagrams {
			vNetPush(d)
		}
		vNetOnEmpty(func() { atomic.StoreInt32(&s.running, 0) })
		atomic.StoreInt32(&s.running, 1)
		s.receiveLoop(ctx)
		vRunPending()
		return vNetSent()
	}
	conn, err := net.ListenUDP("udp", &net.UDPAddr{IP: net.IPv4(127, 0, 0, 1)})
	if err != nil {
		panic(err)
	}
	s.conn = conn
	atomic.StoreInt32(&s.running, 1)
	done := make(chan struct{})
	go func() { defer close(done); s.receiveLoop(ctx) }()
	cl, err := net.DialUDP("udp", nil, conn.LocalAddr().(*net.UDPAddr))
	if err != nil {
		panic(err)
	}
	var out [][]byte
	for _, d := range datagrams {
		cl.Write(d) // back to back: the socket buffer holds the next datagram while a handler runs
	}
	for {
		cl.SetReadDeadline(time.Now().Add(800 * time.Millisecond))
		buf := make([]byte, 4096)
		n, err := cl.Read(buf)
		if err != nil {
			break
		}
		out = append(out, buf[:n])
	}
	s.Stop()
	cl.Close()
	select {
	case <-done:
	case <-time.After(3 * time.Second):
	}
	return out
}

func verifRefAuth(hdr4 []byte, mid16 []byte, attrs []byte) []byte {
	h := md5.New()
	h.Write(hdr4)
	h.Write(mid16)
	h.Write(attrs)
	h.Write([]byte(vSecret))
	return h.Sum(nil)
}

func verifAttrsWellFormed(data []byte) bool {
	off := 0
	for off+2 <= len(data) {
		l := int(data[off+1])
		if l < 2 || off+l > len(data) {
			return false
		}
		off += l
	}
	return true
}

// verifDatagram builds an arbitrary datagram of length 0..B. When its length field is usable the authenticator is
// written as H(request) XOR delta with arbitrary delta: this is a bijection on authenticators (all values are covered)
// and lets a counterexample be replayed with the real MD5.
func verifDatagram(tag string) (data []byte, authentic bool) {
	b := vParam("B", 28)
	n := ndPick(tag+".len", b+1) // the datagram length is a control choice (forked); every byte is symbolic
	data = ndBytes(tag, b)[:n]
	if n < 20 {
		return data, false
	}
	length := int(binary.BigEndian.Uint16(data[2:4]))
	if length < 20 {
		return data, false
	}
	delta := ndBytes(tag+".delta", 16)
	if length > n {
		// truncated datagram: never authentic. Its (arbitrary) authenticator is written relative to the hash of the
		// datagram continued with the zero bytes a fresh receive buffer holds - again a bijection on authenticators,
		// chosen so that "accepted because the missing tail happened to match the buffer" replays with the real MD5
		if length-n > 32 {
			return data, false
		}
		tail := append(append([]byte(nil), data[20:]...), make([]byte, length-n)...)
		exp := verifRefAuth(data[:4], make([]byte, 16), tail)
		for i := 0; i < 16; i++ {
			data[4+i] = exp[i] ^ delta[i]
		}
		return data, false
	}
	exp := verifRefAuth(data[:4], make([]byte, 16), data[20:length])
	acc := byte(0)
	for i := 0; i < 16; i++ {
		data[4+i] = exp[i] ^ delta[i]
		acc |= delta[i]
	}
	if acc != 0 {
		return data, false
	}
	return data, verifAttrsWellFormed(data[20:length])
}

func verifCoAServer(calls *int, lastCoA **CoARequest) *CoAServer {
	s := &CoAServer{addr: ":0", secret: vSecret, logger: zap.NewNop()}
	okCoA, okDM := ndBool("coaOK"), ndBool("dmOK")
	s.coaHandler = func(ctx context.Context, req *CoARequest) *CoAResponse {
		*calls++
		*lastCoA = req
		verifHandlerDelay()
		if okCoA {
			return &CoAResponse{Success: true}
		}
		return &CoAResponse{Success: false, ErrorCause: ErrorCauseSessionContextNotFound, Message: "no"}
	}
	s.disconnectHandler = func(ctx context.Context, req *DisconnectRequest) *DisconnectResponse {
		*calls++
		verifHandlerDelay()
		if okDM {
			return &DisconnectResponse{Success: true}
		}
		return &DisconnectResponse{Success: false, ErrorCause: ErrorCauseSessionContextNotFound}
	}
	return s
}

// natively a handler takes a while (as a real session change does), so that a datagram queued behind the request
// is read while the handler is still running if - and only if - the server dispatches handlers concurrently.
func verifHandlerDelay() {
	if !vSymbolic() {
		time.Sleep(200 * time.Millisecond)
	}
}

func verifCheckResponse(resp []byte, req []byte) {
	vAssert(len(resp) >= 20, "response shorter than a RADIUS header")
	if len(resp) < 20 {
		return
	}
	vAssert(resp[1] == req[1], "response identifier differs from the request's")
	vAssert(int(binary.BigEndian.Uint16(resp[2:4])) == len(resp), "response length field differs from the datagram length")
	if req[0] == CodeCoARequest {
		vAssert(resp[0] == CodeCoAACK || resp[0] == CodeCoANAK, "CoA request answered with a foreign code")
	} else {
		vAssert(resp[0] == CodeDisconnectACK || resp[0] == CodeDisconnectNAK, "Disconnect request answered with a foreign code")
	}
	want := verifRefAuth(resp[:4], req[4:20], resp[20:])
	vAssert(bytes.Equal(resp[4:20], want), "Response Authenticator does not verify against the request it answers")
}

// One arbitrary datagram: handler invoked and a response sent  <=>  complete, well-formed, authentic CoA/Disconnect request.
func VerifC15_OneDatagram() {
	calls := 0
	var last *CoARequest
	s := verifCoAServer(&calls, &last)
	data, authentic := verifDatagram("d")
	req := append([]byte(nil), data...)
	out := verifDeliver(s, [][]byte{data})
	acted := calls > 0 || len(out) > 0
	should := authentic && (req[0] == CodeCoARequest || req[0] == CodeDisconnectRequest)
	if should {
		vAssert(calls == 1 && len(out) == 1, "authentic request was not handled exactly once")
		if len(out) == 1 {
			verifCheckResponse(out[0], req)
		}
		vReach("handled")
	} else {
		vAssert(!acted, "a datagram that is not an authentic CoA/Disconnect request reached a handler or was answered")
		vReach("dropped")
	}
}

// Two datagrams back to back (the second arbitrary): the reply to the first still verifies against the first.
func VerifC15_TwoDatagrams() {
	calls := 0
	var last *CoARequest
	s := verifCoAServer(&calls, &last)
	d1, a1 := verifDatagram("d1")
	vAssume(a1 && (d1[0] == CodeCoARequest || d1[0] == CodeDisconnectRequest))
	r1 := append([]byte(nil), d1...)
	// the second datagram only has to occupy the receive buffer: 20 arbitrary bytes with an over-long length field
	d2 := ndBytes("d2", 20)
	d2[2], d2[3] = 0xFF, 0xFF
	vAssume(d2[1] != d1[1]) // distinguishable identifiers
	r2 := append([]byte(nil), d2...)
	out := verifDeliver(s, [][]byte{d1, d2})
	found := false
	for _, resp := range out {
		if len(resp) >= 20 && resp[1] == r1[1] {
			found = true
			verifCheckResponse(resp, r1)
		} else if len(resp) >= 20 && resp[1] == r2[1] {
			verifCheckResponse(resp, r2)
		}
	}
	vAssert(found, "authentic request went unanswered")
	vReach("end")
}

func init() {
	vHarness["VerifC15_OneDatagram"] = VerifC15_OneDatagram
	vHarness["VerifC15_TwoDatagrams"] = VerifC15_TwoDatagrams
}

// Two authentic requests from the same source, back to back, with arbitrary (possibly equal) identifiers and
// arbitrary contents: each is handled exactly once and each reply verifies against the request it answers.
func VerifC15_TwoRequests() {
	calls := 0
	var last *CoARequest
	s := verifCoAServer(&calls, &last)
	d1, a1 := verifDatagram("d1")
	vAssume(a1 && (d1[0] == CodeCoARequest || d1[0] == CodeDisconnectRequest))
	d2, a2 := verifDatagram("d2")
	vAssume(a2 && (d2[0] == CodeCoARequest || d2[0] == CodeDisconnectRequest))
	r1, r2 := append([]byte(nil), d1...), append([]byte(nil), d2...)
	out := verifDeliver(s, [][]byte{d1, d2})
	vAssert(calls == 2, "two authentic requests were not handled once each")
	vAssert(len(out) == 2, "two authentic requests were not answered once each")
	if len(out) == 2 {
		verifCheckResponse(out[0], r1)
		verifCheckResponse(out[1], r2)
	}
	vReach("end")
}

func init() { vHarness["VerifC15_TwoRequests"] = VerifC15_TwoRequests }
