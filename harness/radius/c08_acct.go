//go:build verif

package radius

import (
	"context"
	"net"
	"sync"

	"go.uber.org/zap"
	"golang.org/x/time/rate"
	lradius "layeh.com/radius"
	"layeh.com/radius/rfc2865"
	"layeh.com/radius/rfc2866"
	"layeh.com/radius/rfc2869"
)

// verifAcctClient: engine: the server is the stub behind radius.Exchange. Native replay: a loopback UDP server
// that acknowledges and logs every Accounting-Request.
func verifAcctClient() *Client {
	port := 1812
	if !vSymbolic() {
		conn, err := net.ListenUDP("udp", &net.UDPAddr{IP: net.IPv4(127, 0, 0, 1)})
		if err != nil {
			panic(err)
		}
		port = conn.LocalAddr().(*net.UDPAddr).Port - 1
		var mu sync.Mutex
		var log []interface{}
		go func() {
			buf := make([]byte, 4096)
			for {
				n, addr, err := conn.ReadFromUDP(buf)
				if err != nil {
					return
				}
				pkt, err := lradius.Parse(append([]byte(nil), buf[:n]...), []byte(vSecret))
				if err != nil {
					continue
				}
				mu.Lock()
				log = append(log, pkt)
				mu.Unlock()
				if out, err := pkt.Response(lradius.CodeAccountingResponse).Encode(); err == nil {
					conn.WriteToUDP(out, addr)
				}
			}
		}()
		vRadiusLogHook = func() []interface{} {
			mu.Lock()
			defer mu.Unlock()
			return append([]interface{}(nil), log...)
		}
	}
	return &Client{servers: []ServerConfig{{Host: "127.0.0.1", Port: port, Secret: vSecret}}, nasID: "bng-1",
		logger: zap.NewNop(), timeout: 3e9, retries: 3, limiters: []*rate.Limiter{rate.NewLimiter(1000, 100)}}
}

// Every 64-bit counter value is reported exactly through the low-word/gigaword split, and the record carries the
// session's own identifiers.
func VerifC08_Gigawords() {
	c := verifAcctClient()
	vRadiusServer(1)
	in, out := ndU64("in-octets"), ndU64("out-octets")
	inP, outP := ndU64("in-pkts"), ndU64("out-pkts")
	st := AcctStatusStop
	if ndPick("interim", 2) == 1 {
		st = AcctStatusInterimUpdate
	}
	mac := net.HardwareAddr{2, 0, 0, 0, 0, ndU8("mac5")}
	ip := net.IP{10, 9, ndU8("ip2"), ndU8("ip3")}
	req := &AcctRequest{SessionID: "sess-A", Username: "alice", MAC: mac, FramedIP: ip, StatusType: st,
		InputOctets: in, OutputOctets: out, InputPackets: inP, OutputPackets: outP, SessionTime: ndU32("time"), NASPort: ndU32("port")}
	err := c.SendAccounting(context.Background(), req)
	vAssert(err == nil, "accounting request refused although the server accepts")
	log := vRadiusLog()
	vAssert(len(log) == 1, "exactly one record reaches the server per request")
	p := log[0].(*lradius.Packet)
	lowIn := uint64(rfc2866.AcctInputOctets_Get(p))
	lowOut := uint64(rfc2866.AcctOutputOctets_Get(p))
	gigIn := uint64(rfc2869.AcctInputGigawords_Get(p))
	gigOut := uint64(rfc2869.AcctOutputGigawords_Get(p))
	vAssert(gigIn<<32|lowIn == in, "input octet counter is not reported exactly through the low-word/gigaword split")
	vAssert(gigOut<<32|lowOut == out, "output octet counter is not reported exactly through the low-word/gigaword split")
	vAssert(lowIn <= 0xFFFFFFFF && gigIn <= 0xFFFFFFFF && lowOut <= 0xFFFFFFFF && gigOut <= 0xFFFFFFFF, "split word exceeds 32 bits")
	vAssert(uint64(rfc2866.AcctInputPackets_Get(p)) == inP&0xFFFFFFFF && uint64(rfc2866.AcctOutputPackets_Get(p)) == outP&0xFFFFFFFF, "packet counters are not the low 32 bits")
	vAssert(rfc2866.AcctSessionID_GetString(p) == "sess-A" && rfc2865.UserName_GetString(p) == "alice", "record does not carry the session's own identifiers")
	vAssert(uint32(rfc2866.AcctStatusType_Get(p)) == uint32(st), "record carries another status type")
	fip := rfc2865.FramedIPAddress_Get(p)
	vAssert(len(fip) == 4 && fip[2] == ip[2] && fip[3] == ip[3], "record carries another session's address")
	vAssert(uint32(rfc2866.AcctSessionTime_Get(p)) == req.SessionTime && uint32(rfc2865.NASPort_Get(p)) == req.NASPort, "session time / NAS port altered")
	vReach("end")
}

func init() {
	vHarness["VerifC08_Gigawords"] = VerifC08_Gigawords
}

// ---- histories, outages and crashes ----

type vAcctWorld struct {
	c           *Client
	am          *AccountingManager
	retries     int     // MaxRetries of the managers this world boots (0: 10)
	crashes     int     // crashes so far
	maxCrash    int     // crash budget of this run
	restarts    int     // graceful restarts so far
	invoked     [3]bool // StartSession was invoked for session i
	startOK     [3]bool // StartSession returned nil
	stopReq     [3]bool // StopSession returned nil
	startQueued [3]bool // the session's Start was refused by the server and queued for retry
	inStart     [3]bool // a crash struck inside StartSession of this session
	memLost     [3]bool // a crash struck while a record of this session was queued only in memory
	seen        int     // log entries already labelled
	crashAt     []int   // per log entry: number of crashes before it was accepted
}

var vAcctIDs = [3]string{"sess-A", "sess-B", "sess-C"}
var vAcctUsers = [3]string{"alice", "bob", "carol"}

// postMortem looks at the dead manager: records that were queued only in memory are gone.
func (w *vAcctWorld) postMortem() {
	for _, r := range w.am.pendingRecords {
		for i, id := range vAcctIDs {
			if r.Request.SessionID == id {
				w.memLost[i] = true
			}
		}
	}
}

func (w *vAcctWorld) label() {
	n := len(vRadiusLog())
	for w.seen < n {
		w.crashAt = append(w.crashAt, w.crashes)
		w.seen++
	}
}

// run executes f; while the crash budget lasts the process may die inside it. Returns true if it died.
func (w *vAcctWorld) run(f func()) bool {
	if w.crashes >= w.maxCrash {
		f()
		w.label()
		return false
	}
	died := vCrashable(f)
	w.label()
	if died {
		w.crashes++
		w.postMortem()
	}
	return died
}

// boot starts a fresh manager on the persisted directory (the real Start; its worker goroutines are modelled by the
// ProcessQueue / RetryTick operations of the harness).
func (w *vAcctWorld) boot() {
	for {
		maxRetries := 10
		if w.retries > 0 {
			maxRetries = w.retries
		}
		am, err := NewAccountingManager(w.c, AccountingConfig{DefaultInterimInterval: 300e9, InterimEnabled: true, MaxRetries: maxRetries,
			RetryBaseDelay: 1e9, RetryMaxDelay: 60e9, QueueSize: 16, PersistPath: "/acct", ShutdownTimeout: 30e9, DrainOnShutdown: true}, zap.NewNop())
		vAssume(err == nil)
		w.am = am
		died := w.run(func() { _ = am.Start() })
		vDropPending()
		if !died {
			return
		}
	}
}

func (w *vAcctWorld) session(i int) *AccountingSession {
	return &AccountingSession{SessionID: vAcctIDs[i], Username: vAcctUsers[i], MAC: net.HardwareAddr{2, 0, 0, 0, 0, byte(i + 1)},
		FramedIP: net.IP{10, 9, 0, byte(i + 1)}, NASPort: uint32(100 + i)}
}

func (w *vAcctWorld) pumpQueue() bool {
	select {
	case r := <-w.am.pendingQueue:
		w.am.processPendingRecord(r)
		return true
	default:
		return false
	}
}

func VerifC08_History() {
	w := &vAcctWorld{c: verifAcctClient(), maxCrash: vParam("crashes", 1)}
	nsess := vParam("sessions", 2)
	w.boot()
	k := vParam("K", 3)
	for step := 0; step < k; step++ {
		i := ndPick("session", nsess)
		id := vAcctIDs[i]
		var died bool
		switch ndPick("op", 6) {
		case 0: // session start (one life per session id)
			vAssume(!w.invoked[i])
			w.invoked[i] = true
			var err error = errNotRun
			died = w.run(func() { err = w.am.StartSession(w.session(i)) })
			if !died {
				vAssume(err == nil)
				w.startOK[i] = true
				w.startQueued[i] = verifAcctCount(id, AcctStatusStart) == 0
			} else {
				w.inStart[i] = true
			}
		case 1: // session stop
			_, active := w.am.GetSession(id)
			before := len(vRadiusLog())
			var err error = errNotRun
			died = w.run(func() { err = w.am.StopSession(id, TerminateCauseUserRequest) })
			if !died {
				if !active {
					vAssert(err != nil && len(vRadiusLog()) == before, "a record was issued for a session that was not started")
				} else {
					vAssume(err == nil)
					w.stopReq[i] = true
				}
			}
		case 2: // interim update
			s, active := w.am.GetSession(id)
			vAssume(active)
			died = w.run(func() { w.am.sendInterimUpdate(s) })
		case 3: // the queue worker takes one record
			vAssume(i == 0)
			var took bool
			died = w.run(func() { took = w.pumpQueue() })
			vAssume(died || took)
		case 4: // the retry timer fires
			vAssume(i == 0)
			vAdvance(61e9)
			died = w.run(func() { w.am.retryPendingRecords() })
		case 5: // graceful stop and restart
			vAssume(i == 0)
			w.restarts++
			died = w.run(func() { _ = w.am.Stop() })
			vDropPending()
			if !died {
				w.boot()
			}
		}
		if died {
			w.boot()
		}
	}
	// how the history ends: the process keeps running, stops gracefully, or dies; then the server is reachable again
	switch ndPick("ending", 3) {
	case 1:
		w.restarts++
		w.run(func() { _ = w.am.Stop() })
		vDropPending()
		vRadiusServer(1)
		w.boot()
	case 2:
		w.crashes++
		w.postMortem()
		vDropPending()
		vRadiusServer(1)
		w.boot()
	}
	vRadiusServer(1)
	w.maxCrash = 0
	for n := 0; n < 12; n++ {
		if !w.pumpQueue() {
			break
		}
	}
	vAdvance(61e9)
	w.am.retryPendingRecords()
	for n := 0; n < 12; n++ {
		if !w.pumpQueue() {
			break
		}
	}
	w.label()
	verifAcctObligations(w, nsess)
	vReach("end")
}

func verifAcctCount(id string, st AcctStatusType) int {
	n := 0
	for _, e := range vRadiusLog() {
		p := e.(*lradius.Packet)
		if rfc2866.AcctSessionID_GetString(p) == id && uint32(rfc2866.AcctStatusType_Get(p)) == uint32(st) {
			n++
		}
	}
	return n
}

// An outage that stays within the configured retry budget never loses a record: with MaxRetries = R a refused
// Stop (or Start) survives R-1 failed retries - taken from the queue or by the retry timer, in any mix - and is
// delivered by the next one.
func VerifC08_RetryBudget() {
	r := vParam("R", 3)
	w := &vAcctWorld{c: verifAcctClient(), retries: r}
	w.boot()
	vRadiusServer(1)
	startRefused := ndPick("start-refused", 2) == 1
	if startRefused {
		vRadiusServer(2)
	}
	vAssume(w.am.StartSession(w.session(0)) == nil)
	vRadiusServer(2) // the server is unreachable when the session stops
	if !startRefused {
		vAssume(w.am.StopSession(vAcctIDs[0], TerminateCauseUserRequest) == nil)
	}
	failed := ndPick("failed-retries", r) // 0..R-1 retries fail, the next one finds the server back
	attempt := func() {
		if ndPick("via", 2) == 0 && w.pumpQueue() {
			return
		}
		vAdvance(61e9)
		w.am.retryPendingRecords()
	}
	for i := 0; i < failed; i++ {
		attempt()
	}
	vRadiusServer(1)
	attempt()
	for w.pumpQueue() {
	}
	want := AcctStatusStop
	if startRefused {
		want = AcctStatusStart
	}
	vAssert(verifAcctCount(vAcctIDs[0], want) == 1, "a record refused during an outage within the retry budget was not delivered exactly once when the server came back")
	vAssert(len(w.am.pendingRecords) == 0, "a delivered record is still pending")
	vReach("end")
}

var errNotRun error = &net.AddrError{Err: "not run"}

func verifAcctObligations(w *vAcctWorld, nsess int) {
	log := vRadiusLog()
	for i := 0; i < nsess; i++ {
		firstStart, firstStop, stops := -1, -1, 0
		for j, e := range log {
			p := e.(*lradius.Packet)
			if rfc2866.AcctSessionID_GetString(p) != vAcctIDs[i] {
				continue
			}
			vAssert(rfc2865.UserName_GetString(p) == vAcctUsers[i], "record does not carry the session's own identifiers")
			vAssert(w.invoked[i], "a record was issued for a session that was not started")
			switch uint32(rfc2866.AcctStatusType_Get(p)) {
			case uint32(AcctStatusStart):
				if firstStart < 0 {
					firstStart = j
				}
			case uint32(AcctStatusStop):
				if firstStop < 0 {
					firstStop = j
				}
				if stops > 0 && w.crashAt[j] == 0 {
					vAssert(false, "an Accounting-Stop the server had already acknowledged was sent again (no crash in between)")
				}
				stops++
			}
		}
		if firstStop >= 0 {
			why := ""
			if w.startQueued[i] {
				why = " [its Start had been refused and queued for retry]"
			}
			vAssert(firstStart >= 0 && firstStart < firstStop, "Accounting-Stop accepted before the session's Accounting-Start"+why)
		}
		_, active := w.am.GetSession(vAcctIDs[i])
		if (w.startOK[i] || firstStart >= 0) && !active {
			why := ""
			if w.inStart[i] {
				why = " [crash inside StartSession]"
			} else if w.memLost[i] {
				why = " [crash while its record was queued only in memory]"
			}
			vAssert(stops >= 1, "a started session never gets its Accounting-Stop although the server is reachable again"+why)
		}
		if active {
			vAssert(stops == 0, "Accounting-Stop issued for a session that is still active")
		}
	}
}

func init() {
	vHarness["VerifC08_History"] = VerifC08_History
	vHarness["VerifC08_RetryBudget"] = VerifC08_RetryBudget
}

// VerifAcctSessionIDs lists the distinct Acct-Session-Id values the server has seen.
func VerifAcctSessionIDs() []string {
	var ids []string
	for _, e := range vRadiusLog() {
		id := rfc2866.AcctSessionID_GetString(e.(*lradius.Packet))
		dup := false
		for _, x := range ids {
			dup = dup || x == id
		}
		if !dup {
			ids = append(ids, id)
		}
	}
	return ids
}
