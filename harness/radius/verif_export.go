//go:build verif

package radius

// VerifAcctClient: a RADIUS client whose server is the engine's stub behind radius.Exchange (exported for the
// harnesses of other packages).
func VerifAcctClient() *Client { return verifAcctClient() }

// VerifAcctCount counts the accounting records of the given status type the server accepted for a session id
// ("" = any session).
func VerifAcctCount(sessionID string, st AcctStatusType) int {
	if sessionID != "" {
		return verifAcctCount(sessionID, st)
	}
	n := 0
	for _, id := range VerifAcctSessionIDs() {
		n += verifAcctCount(id, st)
	}
	return n
}
