//go:build verif

package pppoe

import (
	"bytes"
	"encoding/binary"

	"go.uber.org/zap"
)

type vSent struct {
	pkts [][]byte
}

func (v *vSent) send(proto uint16, data []byte) { v.pkts = append(v.pkts, data) }

func lcpWaiting(s LCPState) bool {
	return s == LCPStateClosing || s == LCPStateStopping || s == LCPStateReqSent || s == LCPStateAckRcvd || s == LCPStateAckSent
}

// verifLCPAny builds an LCP automaton in an arbitrary state (the post-constructor layout, fields set directly).
func verifLCPAny(tag string) (*LCPStateMachine, *vSent) {
	cfg := DefaultLCPConfig()
	cfg.MagicNumber = ndU32(tag + ".magic")
	vAssume(cfg.MagicNumber != 0)
	sent := &vSent{}
	m := &LCPStateMachine{
		state:      LCPState(ndInt(tag+".state", 0, 9)),
		config:     cfg,
		sendPacket: sent.send,
		logger:     zap.NewNop(),
		negotiated: LCPNegotiatedOptions{LocalMRU: cfg.MRU, LocalMagic: cfg.MagicNumber},
	}
	m.identifier = ndU8(tag + ".id")
	m.lastIdentifier = ndU8(tag + ".lastid") // echo, code-reject and terminate packets advance identifier past it
	m.restartCount = ndInt(tag+".rc", 0, cfg.MaxConfigure)
	if lcpWaiting(m.state) {
		m.startTimer() // representation invariant: a waiting state has its restart timer running
	}
	return m, sent
}

// C09: no LCP packet panics the automaton in any state.
func VerifC09_LCPReceive() {
	m, _ := verifLCPAny("m")
	data := vInput("pkt")
	_ = m.ReceivePacket(data)
	vReach("end")
}

// C11 (one inductive step): from any state satisfying the invariant
//
//	Opened => peerAcked && weAcked ; AckRcvd => peerAcked ; AckSent => weAcked
//
// any single event re-establishes it; replies echo identifiers; waiting states keep a timer;
// a timeout either retransmits (and consumes the restart counter) or gives up.
func VerifC11_LCPStep() {
	m, sent := verifLCPAny("m")
	peerAcked := ndBool("peerAcked") // peer acked our most recent Configure-Request
	weAcked := ndBool("weAcked")     // we acked the peer's most recent Configure-Request
	pre := m.state
	vAssume(pre != LCPStateOpened || (peerAcked && weAcked))
	vAssume(pre != LCPStateAckRcvd || peerAcked)
	vAssume(pre != LCPStateAckSent || weAcked)
	lastCR := m.lastIdentifier
	rcPre := m.restartCount

	ev := ndPick("event", 6)
	var pkt *LCPPacket
	switch ev {
	case 0:
		m.Up()
	case 1:
		m.Down()
	case 2:
		m.Open()
	case 3:
		m.Close()
	case 4:
		m.timeout()
	case 5:
		data := vInput("pkt")
		p, err := ParseLCPPacket(data)
		if err != nil {
			vAssume(false)
		}
		pkt = p
		_ = m.ReceivePacket(data)
	}

	// ghost update from what the automaton transmitted
	sentCR, ackedID, acked := false, uint8(0), false
	for _, raw := range sent.pkts {
		if len(raw) < 4 {
			vAssert(false, "transmitted packet shorter than a header")
			continue
		}
		switch raw[0] {
		case LCPCodeConfigRequest:
			sentCR = true
			vAssert(raw[1] == m.lastIdentifier, "Configure-Request identifier is the recorded lastIdentifier")
		case LCPCodeConfigAck:
			acked, ackedID = true, raw[1]
			if pkt != nil {
				vAssert(bytes.Equal(raw[4:], pkt.Data), "Configure-Ack repeats the request's options unchanged")
			}
		case LCPCodeConfigNak, LCPCodeConfigReject:
			if pkt != nil {
				vAssert(raw[1] == pkt.Identifier, "Nak/Reject echoes the request identifier")
			}
		case LCPCodeTermAck:
			if pkt != nil {
				vAssert(raw[1] == pkt.Identifier, "Terminate-Ack echoes the request identifier")
			}
		case LCPCodeEchoReply:
			vAssert(pkt != nil && raw[1] == pkt.Identifier, "Echo-Reply echoes the request identifier")
		}
	}
	if pkt != nil && pkt.Code == LCPCodeConfigRequest {
		_, perr := ParseLCPOptions(pkt.Data)
		if perr == nil {
			weAcked = acked && ackedID == pkt.Identifier
		}
	} else {
		vAssert(!acked, "Configure-Ack sent without a Configure-Request")
	}
	if sentCR {
		peerAcked = false
	} else if pkt != nil && pkt.Code == LCPCodeConfigAck && pkt.Identifier == lastCR {
		peerAcked = true
	}
	post := m.state
	if acked && pkt != nil {
		opts, wellFormed := verifRefOptions(pkt.Data)
		vAssert(wellFormed, "Configure-Ack for a request part of whose option list was never examined (an address or MRU may hide there)")
		for _, o := range opts {
			if o.Type == LCPOptMRU {
				vAssert(len(o.Data) == 2 && binary.BigEndian.Uint16(o.Data) >= 64 && binary.BigEndian.Uint16(o.Data) <= 1492, "LCP Configure-Ack for an MRU outside 64..1492")
			}
		}
	}

	vAssert(post != LCPStateOpened || (peerAcked && weAcked), "Opened only with both sides' latest Configure-Request acknowledged")
	vAssert(post != LCPStateAckRcvd || peerAcked, "Ack-Rcvd only if the peer acked our latest Configure-Request")
	vAssert(post != LCPStateAckSent || weAcked, "Ack-Sent only if we acked the peer's latest Configure-Request")

	if pre == LCPStateOpened {
		leaves := ev == 1 || ev == 3 || (pkt != nil && (pkt.Code == LCPCodeTermRequest || sentCR))
		if leaves {
			vAssert(post != LCPStateOpened, "Down/Close/Terminate/renegotiation leaves Opened")
		}
	}
	// T1: waiting states always have the restart timer running
	if lcpWaiting(post) {
		vAssert(m.restartTimer != nil, "waiting state without a running restart timer (silent peer => stuck forever)")
	}
	// T2: a timeout in a waiting state retransmits and consumes the counter, or gives up
	if ev == 4 && lcpWaiting(pre) {
		if rcPre > 0 {
			vAssert(len(sent.pkts) == 1 && m.restartCount == rcPre-1, "timeout with counter>0 retransmits once and decrements")
		} else {
			vAssert(len(sent.pkts) == 0 && !lcpWaiting(post), "timeout with counter expired gives up")
		}
	}
	vAssert(m.restartCount <= m.config.MaxConfigure, "restart counter never exceeds the configured maximum")
	vReach("end")
}

func init() {
	vHarness["VerifC09_LCPReceive"] = VerifC09_LCPReceive
	vHarness["VerifC11_LCPStep"] = VerifC11_LCPStep
}

// Renegotiation always leaves Opened: an Opened automaton receives a Configure-Request, is brought back to Opened
// by the peer's Ack of our new request, and then receives the byte-identical Configure-Request again (same
// identifier, same options - a peer restarting its negotiation may well reuse both): it must leave Opened again.
func VerifC11_LCPRepeatedRequest() {
	m, sent := verifLCPAny("m")
	vAssume(m.state == LCPStateOpened)
	req := vInput("req")
	vAssume(len(req) >= 4 && req[0] == LCPCodeConfigRequest)
	_ = m.ReceivePacket(req)
	vAssume(m.state == LCPStateAckSent) // we acked it and sent a new request of our own
	// the peer acks our latest request verbatim
	var ours []byte
	for _, raw := range sent.pkts {
		if len(raw) >= 4 && raw[0] == LCPCodeConfigRequest {
			ours = raw
		}
	}
	vAssume(ours != nil)
	ack := append([]byte(nil), ours...)
	ack[0] = LCPCodeConfigAck
	_ = m.ReceivePacket(ack)
	vAssume(m.state == LCPStateOpened)
	_ = m.ReceivePacket(req)
	vAssert(m.state != LCPStateOpened, "a Configure-Request received in Opened (renegotiation) did not leave the opened state")
	vReach("end")
}

func init() { vHarness["VerifC11_LCPRepeatedRequest"] = VerifC11_LCPRepeatedRequest }
