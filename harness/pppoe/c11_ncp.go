//go:build verif

package pppoe

// GENERATED from c11_lcp.go by gen_ncp.py (same obligations for the NCP automata).

import (
	"bytes"
	"net"
	"time"

	"go.uber.org/zap"
)

var _ = time.Second
var _ = net.IPv4zero

func ipcpWaiting(s IPCPState) bool {
	return s == IPCPStateClosing || s == IPCPStateStopping || s == IPCPStateReqSent || s == IPCPStateAckRcvd || s == IPCPStateAckSent
}

// verifIPCPAny builds an LCP automaton in an arbitrary state (the post-constructor layout, fields set directly).
func verifIPCPAny(tag string) (*IPCPStateMachine, *vSent) {
	cfg := DefaultIPCPConfig()
	cfg.LocalIP = net.IP{10, 0, 0, 1}
	if ndBool(tag + ".hasPeerIP") {
		cfg.PeerIP = net.IP{10, 0, 0, ndU8(tag + ".peerIP")}
		vAssume(cfg.PeerIP[3] != 0)
	}
	if ndBool(tag + ".hasDNS") {
		cfg.PrimaryDNS = net.IP{10, 0, 0, 53}
	}
	sent := &vSent{}
	m := &IPCPStateMachine{
		state:      IPCPState(ndInt(tag+".state", 0, 9)),
		config:     cfg,
		sessionID:  "sess",
		sendPacket: sent.send,
		logger:     zap.NewNop(),
		negotiated: IPCPNegotiatedOptions{LocalIP: cfg.LocalIP},
	}
	m.identifier = ndU8(tag + ".id")
	m.lastIdentifier = ndU8(tag + ".lastid") // echo, code-reject and terminate packets advance identifier past it
	m.restartCount = ndInt(tag+".rc", 0, 10)
	if ipcpWaiting(m.state) {
		m.startTimer() // representation invariant: a waiting state has its restart timer running
	}
	return m, sent
}

// C09: no LCP packet panics the automaton in any state.
func VerifC09_IPCPReceive() {
	m, _ := verifIPCPAny("m")
	data := vInput("pkt")
	_ = m.ReceivePacket(data)
	vReach("end")
}

// C11 (one inductive step): from any state satisfying the invariant
//
//	Opened => peerAcked && weAcked ; AckRcvd => peerAcked ; AckSent => weAcked
//
// any single event re-establishes it; replies echo identifiers; waiting states keep a timer;
// a timeout either retransmits (and consumes the restart counter) or gives up.
func VerifC11_IPCPStep() {
	m, sent := verifIPCPAny("m")
	peerAcked := ndBool("peerAcked") // peer acked our most recent Configure-Request
	weAcked := ndBool("weAcked")     // we acked the peer's most recent Configure-Request
	pre := m.state
	vAssume(pre != IPCPStateOpened || (peerAcked && weAcked))
	vAssume(pre != IPCPStateAckRcvd || peerAcked)
	vAssume(pre != IPCPStateAckSent || weAcked)
	lastCR := m.lastIdentifier
	rcPre := m.restartCount

	ev := ndPick("event", 6)
	var pkt *LCPPacket
	switch ev {
	case 0:
		m.Up()
	case 1:
		m.Down()
	case 2:
		m.Open()
	case 3:
		m.Close()
	case 4:
		m.timeout()
	case 5:
		data := vInput("pkt")
		p, err := ParseLCPPacket(data)
		if err != nil {
			vAssume(false)
		}
		pkt = p
		_ = m.ReceivePacket(data)
	}

	// ghost update from what the automaton transmitted
	sentCR, ackedID, acked := false, uint8(0), false
	for _, raw := range sent.pkts {
		if len(raw) < 4 {
			vAssert(false, "transmitted packet shorter than a header")
			continue
		}
		switch raw[0] {
		case LCPCodeConfigRequest:
			sentCR = true
			vAssert(raw[1] == m.lastIdentifier, "Configure-Request identifier is the recorded lastIdentifier")
		case LCPCodeConfigAck:
			acked, ackedID = true, raw[1]
			if pkt != nil {
				vAssert(bytes.Equal(raw[4:], pkt.Data), "Configure-Ack repeats the request's options unchanged")
			}
		case LCPCodeConfigNak, LCPCodeConfigReject:
			if pkt != nil {
				vAssert(raw[1] == pkt.Identifier, "Nak/Reject echoes the request identifier")
			}
		case LCPCodeTermAck:
			if pkt != nil {
				vAssert(raw[1] == pkt.Identifier, "Terminate-Ack echoes the request identifier")
			}
		case LCPCodeEchoReply:
			vAssert(pkt != nil && raw[1] == pkt.Identifier, "Echo-Reply echoes the request identifier")
		}
	}
	if pkt != nil && pkt.Code == LCPCodeConfigRequest {
		_, perr := ParseLCPOptions(pkt.Data)
		if perr == nil {
			weAcked = acked && ackedID == pkt.Identifier
		}
	} else {
		vAssert(!acked, "Configure-Ack sent without a Configure-Request")
	}
	if sentCR {
		peerAcked = false
	} else if pkt != nil && pkt.Code == LCPCodeConfigAck && pkt.Identifier == lastCR {
		peerAcked = true
	}
	post := m.state
	// IPCP acknowledges only the address assigned to the session
	if acked && pkt != nil {
		opts, wellFormed := verifRefOptions(pkt.Data)
		vAssert(wellFormed, "Configure-Ack for a request part of whose option list was never examined (an address or MRU may hide there)")
		for _, o := range opts {
			if o.Type == IPCPOptIPAddress {
				vAssert(len(o.Data) == 4 && m.config.PeerIP != nil && net.IP(o.Data).Equal(m.config.PeerIP), "IPCP Configure-Ack for an address that is not the one assigned to the session")
			}
		}
	}

	vAssert(post != IPCPStateOpened || (peerAcked && weAcked), "Opened only with both sides' latest Configure-Request acknowledged")
	vAssert(post != IPCPStateAckRcvd || peerAcked, "Ack-Rcvd only if the peer acked our latest Configure-Request")
	vAssert(post != IPCPStateAckSent || weAcked, "Ack-Sent only if we acked the peer's latest Configure-Request")

	if pre == IPCPStateOpened {
		leaves := ev == 1 || ev == 3 || (pkt != nil && (pkt.Code == LCPCodeTermRequest || sentCR))
		if leaves {
			vAssert(post != IPCPStateOpened, "Down/Close/Terminate/renegotiation leaves Opened")
		}
	}
	// T1: waiting states always have the restart timer running
	if ipcpWaiting(post) {
		vAssert(m.restartTimer != nil, "waiting state without a running restart timer (silent peer => stuck forever)")
	}
	// T2: a timeout in a waiting state retransmits and consumes the counter, or gives up
	if ev == 4 && ipcpWaiting(pre) {
		if rcPre > 0 {
			vAssert(len(sent.pkts) == 1 && m.restartCount == rcPre-1, "timeout with counter>0 retransmits once and decrements")
		} else {
			vAssert(len(sent.pkts) == 0 && !ipcpWaiting(post), "timeout with counter expired gives up")
		}
	}
	vAssert(m.restartCount <= 10, "restart counter never exceeds the configured maximum")
	vReach("end")
}

func ipv6cpWaiting(s IPV6CPState) bool {
	return s == IPV6CPStateClosing || s == IPV6CPStateStopping || s == IPV6CPStateReqSent || s == IPV6CPStateAckRcvd || s == IPV6CPStateAckSent
}

// verifIPV6CPAny builds an LCP automaton in an arbitrary state (the post-constructor layout, fields set directly).
func verifIPV6CPAny(tag string) (*IPV6CPStateMachine, *vSent) {
	cfg := IPV6CPConfig{LocalInterfaceID: ndU64(tag + ".ifid"), MaxRetransmit: 10, RestartTimer: 3 * time.Second}
	vAssume(cfg.LocalInterfaceID != 0)
	sent := &vSent{}
	m := &IPV6CPStateMachine{
		state:      IPV6CPState(ndInt(tag+".state", 0, 9)),
		config:     cfg,
		sendPacket: sent.send,
		logger:     zap.NewNop(),
		negotiated: IPV6CPNegotiatedOptions{LocalInterfaceID: cfg.LocalInterfaceID},
	}
	m.identifier = ndU8(tag + ".id")
	m.lastIdentifier = ndU8(tag + ".lastid") // echo, code-reject and terminate packets advance identifier past it
	m.restartCount = ndInt(tag+".rc", 0, 10)
	if ipv6cpWaiting(m.state) {
		m.startTimer() // representation invariant: a waiting state has its restart timer running
	}
	return m, sent
}

// C09: no LCP packet panics the automaton in any state.
func VerifC09_IPV6CPReceive() {
	m, _ := verifIPV6CPAny("m")
	data := vInput("pkt")
	_ = m.ReceivePacket(data)
	vReach("end")
}

// C11 (one inductive step): from any state satisfying the invariant
//
//	Opened => peerAcked && weAcked ; AckRcvd => peerAcked ; AckSent => weAcked
//
// any single event re-establishes it; replies echo identifiers; waiting states keep a timer;
// a timeout either retransmits (and consumes the restart counter) or gives up.
func VerifC11_IPV6CPStep() {
	m, sent := verifIPV6CPAny("m")
	peerAcked := ndBool("peerAcked") // peer acked our most recent Configure-Request
	weAcked := ndBool("weAcked")     // we acked the peer's most recent Configure-Request
	pre := m.state
	vAssume(pre != IPV6CPStateOpened || (peerAcked && weAcked))
	vAssume(pre != IPV6CPStateAckRcvd || peerAcked)
	vAssume(pre != IPV6CPStateAckSent || weAcked)
	lastCR := m.lastIdentifier
	rcPre := m.restartCount

	ev := ndPick("event", 6)
	var pkt *LCPPacket
	switch ev {
	case 0:
		m.Up()
	case 1:
		m.Down()
	case 2:
		m.Open()
	case 3:
		m.Close()
	case 4:
		m.timeout()
	case 5:
		data := vInput("pkt")
		p, err := ParseLCPPacket(data)
		if err != nil {
			vAssume(false)
		}
		pkt = p
		_ = m.ReceivePacket(data)
	}

	// ghost update from what the automaton transmitted
	sentCR, ackedID, acked := false, uint8(0), false
	for _, raw := range sent.pkts {
		if len(raw) < 4 {
			vAssert(false, "transmitted packet shorter than a header")
			continue
		}
		switch raw[0] {
		case LCPCodeConfigRequest:
			sentCR = true
			vAssert(raw[1] == m.lastIdentifier, "Configure-Request identifier is the recorded lastIdentifier")
		case LCPCodeConfigAck:
			acked, ackedID = true, raw[1]
			if pkt != nil {
				vAssert(bytes.Equal(raw[4:], pkt.Data), "Configure-Ack repeats the request's options unchanged")
			}
		case LCPCodeConfigNak, LCPCodeConfigReject:
			if pkt != nil {
				vAssert(raw[1] == pkt.Identifier, "Nak/Reject echoes the request identifier")
			}
		case LCPCodeTermAck:
			if pkt != nil {
				vAssert(raw[1] == pkt.Identifier, "Terminate-Ack echoes the request identifier")
			}
		case LCPCodeEchoReply:
			vAssert(pkt != nil && raw[1] == pkt.Identifier, "Echo-Reply echoes the request identifier")
		}
	}
	if pkt != nil && pkt.Code == LCPCodeConfigRequest {
		_, perr := ParseLCPOptions(pkt.Data)
		if perr == nil {
			weAcked = acked && ackedID == pkt.Identifier
		}
	} else {
		vAssert(!acked, "Configure-Ack sent without a Configure-Request")
	}
	if sentCR {
		peerAcked = false
	} else if pkt != nil && pkt.Code == LCPCodeConfigAck && pkt.Identifier == lastCR {
		peerAcked = true
	}
	post := m.state
	if acked && pkt != nil {
		_, wellFormed := verifRefOptions(pkt.Data)
		vAssert(wellFormed, "Configure-Ack for a request part of whose option list was never examined (an address or MRU may hide there)")
	}

	vAssert(post != IPV6CPStateOpened || (peerAcked && weAcked), "Opened only with both sides' latest Configure-Request acknowledged")
	vAssert(post != IPV6CPStateAckRcvd || peerAcked, "Ack-Rcvd only if the peer acked our latest Configure-Request")
	vAssert(post != IPV6CPStateAckSent || weAcked, "Ack-Sent only if we acked the peer's latest Configure-Request")

	if pre == IPV6CPStateOpened {
		leaves := ev == 1 || ev == 3 || (pkt != nil && (pkt.Code == LCPCodeTermRequest || sentCR))
		if leaves {
			vAssert(post != IPV6CPStateOpened, "Down/Close/Terminate/renegotiation leaves Opened")
		}
	}
	// T1: waiting states always have the restart timer running
	if ipv6cpWaiting(post) {
		vAssert(m.restartTimer != nil, "waiting state without a running restart timer (silent peer => stuck forever)")
	}
	// T2: a timeout in a waiting state retransmits and consumes the counter, or gives up
	if ev == 4 && ipv6cpWaiting(pre) {
		if rcPre > 0 {
			vAssert(len(sent.pkts) == 1 && m.restartCount == rcPre-1, "timeout with counter>0 retransmits once and decrements")
		} else {
			vAssert(len(sent.pkts) == 0 && !ipv6cpWaiting(post), "timeout with counter expired gives up")
		}
	}
	vAssert(m.restartCount <= 10, "restart counter never exceeds the configured maximum")
	vReach("end")
}

func init() {
	vHarness["VerifC09_IPCPReceive"] = VerifC09_IPCPReceive
	vHarness["VerifC11_IPCPStep"] = VerifC11_IPCPStep
	vHarness["VerifC09_IPV6CPReceive"] = VerifC09_IPV6CPReceive
	vHarness["VerifC11_IPV6CPStep"] = VerifC11_IPV6CPStep
}

// A Configure-Reject lists only options of the request, byte for byte; a Configure-Nak only option types the
// request carried. Request: one option of an arbitrary type (2..3 bytes) followed by an IP-Address option with an
// arbitrary address, to the IPCP automaton in any state.
func VerifC11_IPCPRejectContent() {
	m, sent := verifIPCPAny("m")
	first := []byte{ndU8("opt1.type"), 2}
	if ndPick("opt1.len3", 2) == 1 {
		first = []byte{first[0], 3, ndU8("opt1.data")}
	}
	second := append([]byte{IPCPOptIPAddress, 6}, ndBytes("addr", 4)...)
	var opts []byte
	if ndPick("order", 2) == 0 {
		opts = append(append([]byte(nil), first...), second...)
	} else {
		opts = append(append([]byte(nil), second...), first...)
	}
	req := append([]byte{LCPCodeConfigRequest, ndU8("id"), 0, byte(4 + len(opts))}, opts...)
	_ = m.ReceivePacket(req)
	reqOpts, _ := verifRefOptions(opts)
	for _, raw := range sent.pkts {
		if len(raw) < 4 || (raw[0] != LCPCodeConfigReject && raw[0] != LCPCodeConfigNak) {
			continue
		}
		got, ok := verifRefOptions(raw[4:])
		vAssert(ok, "Nak/Reject carries a malformed option list")
		for _, g := range got {
			found := false
			for _, r := range reqOpts {
				if raw[0] == LCPCodeConfigReject {
					found = found || (g.Type == r.Type && bytes.Equal(g.Data, r.Data))
				} else {
					found = found || g.Type == r.Type
				}
			}
			if raw[0] == LCPCodeConfigReject {
				vAssert(found, "Configure-Reject lists an option that is not an option of the request")
			} else {
				vAssert(found, "Configure-Nak lists an option type the request did not carry")
			}
		}
	}
	vReach("end")
}

func init() { vHarness["VerifC11_IPCPRejectContent"] = VerifC11_IPCPRejectContent }
