//go:build verif

package pppoe

// C09: decoders never panic on any byte string of length 0..B.

func vInput(tag string) []byte {
	b := vParam("B", 16)
	n := ndInt(tag+".len", 0, b)
	return ndBytes(tag, b)[:n]
}

func VerifC09_ParsePPPoEHeader() {
	data := vInput("data")
	h, err := ParsePPPoEHeader(data)
	vAssert((h == nil) != (err == nil), "exactly one of header/error")
	vReach("end")
}

func VerifC09_ParseTags() {
	data := vInput("data")
	tags, err := ParseTags(data)
	if err == nil {
		total := 0
		for _, t := range tags {
			total += 4 + len(t.Value)
		}
		vAssert(total <= len(data), "tags fit in input")
		vReach("ok")
	}
	vReach("end")
}

func VerifC09_ParseLCPPacket() {
	data := vInput("data")
	p, err := ParseLCPPacket(data)
	if err == nil {
		vAssert(len(p.Data) <= len(data), "payload within input")
		vReach("ok")
	}
	vReach("end")
}

func VerifC09_ParseLCPOptions() {
	data := vInput("data")
	opts, err := ParseLCPOptions(data)
	if err == nil {
		total := 0
		for _, o := range opts {
			total += 2 + len(o.Data)
		}
		vAssert(total <= len(data), "options fit in input")
		vReach("ok")
	}
	vReach("end")
}

func init() {
	vHarness["VerifC09_ParsePPPoEHeader"] = VerifC09_ParsePPPoEHeader
	vHarness["VerifC09_ParseTags"] = VerifC09_ParseTags
	vHarness["VerifC09_ParseLCPPacket"] = VerifC09_ParseLCPPacket
	vHarness["VerifC09_ParseLCPOptions"] = VerifC09_ParseLCPOptions
}
