//go:build verif

package pppoe

import (
	"bytes"
	"net"

	"github.com/codelaboratoryltd/bng/pkg/radius"
)

type vSnap struct {
	state  SessionState
	authed bool
	ip     net.IP
	lcpID  uint8
	user   string
}

func verifSnap(s *Session) vSnap {
	return vSnap{s.State, s.Authenticated, s.ClientIP, s.LCPIdentifier, s.Username}
}

func verifC04Inv(s *Session) bool {
	needsAuth := s.State == StateIPCPNegotiation || s.State == StateEstablished || s.ClientIP != nil
	return !needsAuth || s.Authenticated
}

// verifIPCPAckSent reports whether a transmitted frame is an IPCP Configure-Ack for session id.
func verifIPCPAckSent(frames [][]byte, id uint16) bool {
	for _, f := range frames {
		// ethernet(14) pppoe(6) ppp proto(2) code(1)
		if len(f) >= 23 && f[12] == 0x88 && f[13] == 0x64 && uint16(f[16])<<8|uint16(f[17]) == id && f[20] == 0x80 && f[21] == 0x21 && f[22] == LCPCodeConfigAck {
			return true
		}
	}
	return false
}

// One inductive step: two sessions (owners O1, O2) in arbitrary states satisfying
//
//	Inv: (IPCP negotiation | Established | has a client address) => authenticated,
//
// one arbitrary frame from O1, O2 or a foreign MAC; RADIUS (when configured) answers accept/reject/error.
func VerifC04_Step() {
	s, sock := verifServer()
	if ndPick("radius", 2) == 1 {
		s.radiusClient = &radius.Client{}
		vTag("radius-configured")
	}
	owners := []net.HardwareAddr{vMACOwner, vMACOwner2}
	nsess := vParam("nsess", 1)
	var sess []*Session
	for i := 0; i < nsess; i++ {
		ss, err := s.sessions.CreateSession(owners[i], s.serverMAC)
		vAssume(err == nil)
		ss.State = SessionState(ndInt("state", int(StateLCPNegotiation), int(StateClosed)))
		ss.Authenticated = ndBool("authed")
		if ndBool("hasIP") {
			ss.ClientIP = s.clientIPPool.Allocate(ss.SessionID)
		}
		vAssume(verifC04Inv(ss))
		sess = append(sess, ss)
	}
	var pre []vSnap
	for _, ss := range sess {
		pre = append(pre, verifSnap(ss))
	}
	srcs := []net.HardwareAddr{vMACOwner, vMACOwner2, vMACForeign}
	src := srcs[ndPick("src", 3)]
	data := vInput("frame")
	discovery := ndPick("ethertype", 2) == 0
	if discovery {
		s.handleDiscovery(src, data)
	} else {
		s.handleSession(src, data)
	}
	vRunPending()
	radiusOutcome := vEnvInt("radius-outcome", -1)
	for i, ss := range sess {
		live := s.sessions.GetSession(ss.ID) == ss
		vAssert(verifC04Inv(ss), "session has IP service (state/address) without successful authentication")
		vAssert(!verifIPCPAckSent(sock.frames, ss.ID) || ss.Authenticated, "IPCP Configure-Ack sent for a session that is not authenticated")
		if !pre[i].authed && ss.Authenticated && s.radiusClient != nil {
			vAssert(radiusOutcome == 0, "session marked authenticated although RADIUS did not accept")
		}
		if !bytes.Equal(src, ss.ClientMAC) {
			// frames from anyone but the owner never change, advance or terminate the session
			now := verifSnap(ss)
			unchanged := live && now.state == pre[i].state && now.authed == pre[i].authed && now.lcpID == pre[i].lcpID &&
				now.user == pre[i].user && (now.ip == nil) == (pre[i].ip == nil)
			vAssert(unchanged, "a frame from a MAC that does not own the session changed or terminated it")
		}
	}
	vReach("end")
}

func init() { vHarness["VerifC04_Step"] = VerifC04_Step }

// Two frames: first any session frame from the owner (so that whatever the server remembers about "the last frame"
// is set), then an arbitrary frame from a foreign MAC: the session must be untouched by the second.
func VerifC04_OwnerThenForeign() {
	s, sock := verifServer()
	ss, err := s.sessions.CreateSession(vMACOwner, s.serverMAC)
	vAssume(err == nil)
	ss.State = SessionState(ndInt("state", int(StateLCPNegotiation), int(StateEstablished)))
	ss.Authenticated = ss.State >= StateIPCPNegotiation
	// owner frame: LCP Echo-Request on the session (harmless, accepted in every state)
	owner := []byte{0x11, 0x00, byte(ss.ID >> 8), byte(ss.ID), 0x00, 0x0a, 0xc0, 0x21, 9, ndU8("echo.id"), 0, 8, 1, 2, 3, 4}
	s.handleSession(vMACOwner, owner)
	pre := verifSnap(ss)
	nframes := len(sock.frames)
	bytesIn := ss.BytesIn
	data := vInput("frame")
	s.handleSession(vMACForeign, data)
	vRunPending()
	now := verifSnap(ss)
	live := s.sessions.GetSession(ss.ID) == ss
	vAssert(live && now.state == pre.state && now.authed == pre.authed && now.lcpID == pre.lcpID && now.user == pre.user && (now.ip == nil) == (pre.ip == nil),
		"a frame from a MAC that does not own the session changed or terminated it")
	vAssert(len(sock.frames) == nframes && ss.BytesIn == bytesIn, "a frame from a foreign MAC was counted or answered on the session")
	vReach("end")
}

func init() { vHarness["VerifC04_OwnerThenForeign"] = VerifC04_OwnerThenForeign }
