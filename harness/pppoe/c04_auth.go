//go:build verif

package pppoe

import (
	"bytes"
	"context"
	"net"

	"github.com/codelaboratoryltd/bng/pkg/radius"
)

type vSnap struct {
	state  SessionState
	authed bool
	ip     net.IP
	lcpID  uint8
	user   string
}

func verifSnap(s *Session) vSnap {
	return vSnap{s.State, s.Authenticated, s.ClientIP, s.LCPIdentifier, s.Username}
}

func verifC04Inv(s *Session) bool {
	needsAuth := s.State == StateIPCPNegotiation || s.State == StateEstablished || s.ClientIP != nil
	return !needsAuth || s.Authenticated
}

// verifIPCPAckSent reports whether a transmitted frame is an IPCP Configure-Ack for session id.
func verifIPCPAckSent(frames [][]byte, id uint16) bool {
	for _, f := range frames {
		// ethernet(14) pppoe(6) ppp proto(2) code(1)
		if len(f) >= 23 && f[12] == 0x88 && f[13] == 0x64 && uint16(f[16])<<8|uint16(f[17]) == id && f[20] == 0x80 && f[21] == 0x21 && f[22] == LCPCodeConfigAck {
			return true
		}
	}
	return false
}

// One inductive step: two sessions (owners O1, O2) in arbitrary states satisfying
//
//	Inv: (IPCP negotiation | Established | has a client address) => authenticated,
//
// one arbitrary frame from O1, O2 or a foreign MAC; RADIUS (when configured) answers accept/reject/error.
func VerifC04_Step() {
	s, sock := verifServer()
	if ndPick("radius", 2) == 1 {
		s.radiusClient = &radius.Client{}
		vTag("radius-configured")
	}
	owners := []net.HardwareAddr{vMACOwner, vMACOwner2}
	nsess := vParam("nsess", 1)
	var sess []*Session
	for i := 0; i < nsess; i++ {
		ss, err := s.sessions.CreateSession(owners[i], s.serverMAC)
		vAssume(err == nil)
		ss.State = SessionState(ndInt("state", int(StateLCPNegotiation), int(StateClosed)))
		ss.Authenticated = ndBool("authed")
		if ndBool("hasIP") {
			ss.ClientIP = s.clientIPPool.Allocate(ss.SessionID)
		}
		vAssume(verifC04Inv(ss))
		sess = append(sess, ss)
	}
	var pre []vSnap
	for _, ss := range sess {
		pre = append(pre, verifSnap(ss))
	}
	srcs := []net.HardwareAddr{vMACOwner, vMACOwner2, vMACForeign}
	src := srcs[ndPick("src", 3)]
	data := vInput("frame")
	discovery := ndPick("ethertype", 2) == 0
	if discovery {
		s.handleDiscovery(src, data)
	} else {
		s.handleSession(src, data)
	}
	vRunPending()
	radiusOutcome := vEnvInt("radius-outcome", -1)
	for i, ss := range sess {
		live := s.sessions.GetSession(ss.ID) == ss
		vAssert(verifC04Inv(ss), "session has IP service (state/address) without successful authentication")
		vAssert(!verifIPCPAckSent(sock.frames, ss.ID) || ss.Authenticated, "IPCP Configure-Ack sent for a session that is not authenticated")
		if !pre[i].authed && ss.Authenticated && s.radiusClient != nil {
			vAssert(radiusOutcome == 0, "session marked authenticated although RADIUS did not accept")
		}
		if !bytes.Equal(src, ss.ClientMAC) {
			// frames from anyone but the owner never change, advance or terminate the session
			now := verifSnap(ss)
			unchanged := live && now.state == pre[i].state && now.authed == pre[i].authed && now.lcpID == pre[i].lcpID &&
				now.user == pre[i].user && (now.ip == nil) == (pre[i].ip == nil)
			vAssert(unchanged, "a frame from a MAC that does not own the session changed or terminated it")
		}
	}
	vReach("end")
}

func init() { vHarness["VerifC04_Step"] = VerifC04_Step }

// Two frames: first any session frame from the owner (so that whatever the server remembers about "the last frame"
// is set), then an arbitrary frame from a foreign MAC: the session must be untouched by the second.
func VerifC04_OwnerThenForeign() {
	s, sock := verifServer()
	ss, err := s.sessions.CreateSession(vMACOwner, s.serverMAC)
	vAssume(err == nil)
	ss.State = SessionState(ndInt("state", int(StateLCPNegotiation), int(StateEstablished)))
	ss.Authenticated = ss.State >= StateIPCPNegotiation
	// owner frame: LCP Echo-Request on the session (harmless, accepted in every state)
	owner := []byte{0x11, 0x00, byte(ss.ID >> 8), byte(ss.ID), 0x00, 0x0a, 0xc0, 0x21, 9, ndU8("echo.id"), 0, 8, 1, 2, 3, 4}
	s.handleSession(vMACOwner, owner)
	pre := verifSnap(ss)
	nframes := len(sock.frames)
	bytesIn := ss.BytesIn
	data := vInput("frame")
	s.handleSession(vMACForeign, data)
	vRunPending()
	now := verifSnap(ss)
	live := s.sessions.GetSession(ss.ID) == ss
	vAssert(live && now.state == pre.state && now.authed == pre.authed && now.lcpID == pre.lcpID && now.user == pre.user && (now.ip == nil) == (pre.ip == nil),
		"a frame from a MAC that does not own the session changed or terminated it")
	vAssert(len(sock.frames) == nframes && ss.BytesIn == bytesIn, "a frame from a foreign MAC was counted or answered on the session")
	vReach("end")
}

func init() { vHarness["VerifC04_OwnerThenForeign"] = VerifC04_OwnerThenForeign }

// verifEther wraps a PPPoE payload into an Ethernet frame from src to the server.
func verifEther(src net.HardwareAddr, etherType uint16, payload []byte) []byte {
	f := make([]byte, 0, 14+len(payload))
	f = append(f, vMACServer...)
	f = append(f, src...)
	f = append(f, byte(etherType>>8), byte(etherType))
	return append(f, payload...)
}

// Through the REAL receive loop (one receive buffer reused for every frame): the owner opens a session with a
// PADR, then an arbitrary frame arrives from a foreign MAC. The session still belongs to the owner and the foreign
// frame did not change or terminate it.
func VerifC04_ReceiveLoopOwner() {
	s, sock := verifServer()
	padr := &PPPoEHeader{VerType: 0x11, Code: CodePADR, SessionID: 0}
	tags := SerializeTags([]Tag{{Type: TagServiceName, Value: []byte("internet")}, {Type: TagACCookie, Value: []byte("0123456789abcdef")}})
	padr.Length = uint16(len(tags))
	data := vInput("frame")
	etherType := []uint16{EtherTypePPPoEDiscovery, EtherTypePPPoESession}[ndPick("ethertype", 2)]
	sock.rx = [][]byte{
		verifEther(vMACOwner, EtherTypePPPoEDiscovery, append(padr.Serialize(), tags...)),
		verifEther(vMACForeign, etherType, data),
	}
	func() {
		defer func() {
			if r := recover(); r != nil {
				if _, ok := r.(vStop); !ok {
					panic(r)
				}
			}
		}()
		s.receiveLoop(context.Background())
	}()
	vRunPending()
	all := s.sessions.GetAllSessions()
	vAssert(len(all) >= 1, "a frame from a MAC that does not own the session terminated it (the owner's PADR had created it)")
	ss := s.sessions.GetSessionByMAC(vMACOwner)
	vAssert(ss != nil, "the owner's session is no longer found under the owner's MAC after a frame from another MAC")
	if ss == nil {
		return
	}
	pre := ss.GetState()
	_ = pre
	vAssert(bytes.Equal(ss.ClientMAC, vMACOwner), "the session's owner MAC changed when a frame from another MAC was received")
	vAssert(s.sessions.GetSession(ss.ID) == ss, "a frame from a MAC that does not own the session terminated it")
	vAssert(s.sessions.GetSessionByMAC(vMACForeign) == nil || s.sessions.GetSessionByMAC(vMACForeign) != ss, "the session became reachable under the foreign MAC")
	vReach("end")
}

func init() { vHarness["VerifC04_ReceiveLoopOwner"] = VerifC04_ReceiveLoopOwner }

// A subscriber with a session of its own sends an arbitrary frame: the OTHER subscriber's session must be untouched
// (owning some session gives no rights over another one).
func VerifC04_CrossSession() {
	s, sock := verifServer()
	victim, err := s.sessions.CreateSession(vMACOwner, s.serverMAC)
	vAssume(err == nil)
	victim.State = SessionState(ndInt("state", int(StateLCPNegotiation), int(StateEstablished)))
	victim.Authenticated = victim.State >= StateIPCPNegotiation
	other, err := s.sessions.CreateSession(vMACOwner2, s.serverMAC)
	vAssume(err == nil)
	other.State, other.Authenticated = StateEstablished, true
	pre := verifSnap(victim)
	bytesIn := victim.BytesIn
	data := vInput("frame")
	if ndPick("ethertype", 2) == 0 {
		s.handleDiscovery(vMACOwner2, data)
	} else {
		s.handleSession(vMACOwner2, data)
	}
	vRunPending()
	now := verifSnap(victim)
	live := s.sessions.GetSession(victim.ID) == victim
	vAssert(live && now.state == pre.state && now.authed == pre.authed && now.lcpID == pre.lcpID && now.user == pre.user && (now.ip == nil) == (pre.ip == nil),
		"a frame from a MAC that does not own the session changed or terminated it")
	vAssert(victim.BytesIn == bytesIn, "a frame from another subscriber was counted on the session")
	for _, f := range sock.frames {
		if len(f) >= 18 && f[12] == 0x88 && f[13] == 0x64 {
			vAssert(uint16(f[16])<<8|uint16(f[17]) != victim.ID, "a frame from another subscriber was answered on the session")
		}
	}
	vReach("end")
}

func init() { vHarness["VerifC04_CrossSession"] = VerifC04_CrossSession }
