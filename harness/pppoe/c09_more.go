//go:build verif

package pppoe

import (
	"github.com/codelaboratoryltd/bng/pkg/radius"
	"go.uber.org/zap"
)

// PAP / CHAP packets delivered to the Authenticator in every state (idle, challenge sent with any identifier,
// after success or failure), with or without RADIUS, rate limited or not.
func VerifC09_AuthReceive() {
	var rc *radius.Client
	if ndPick("radius", 2) == 1 {
		rc = &radius.Client{}
	}
	sent := 0
	a := NewAuthenticator(DefaultAuthConfig(), rc, func(uint16, []byte) { sent++ }, zap.NewNop())
	a.state = AuthState(ndInt("state", int(AuthStateNone), int(AuthStateFailure)))
	a.chapID = ndU8("chap-id")
	a.challenge = ndBytes("challenge", 16)
	a.failureCount = ndInt("failures", 0, 6)
	proto := []uint16{ProtocolPAP, ProtocolCHAP, 0x1234}[ndPick("proto", 3)]
	data := vInput("data")
	_ = a.ReceivePacket(proto, data)
	vReach("end")
}

func VerifC09_ParseEchoPacket() {
	data := vInput("data")
	_, payload, _ := ParseEchoPacket(data)
	vAssert(len(payload) <= len(data), "payload longer than the input")
	vReach("end")
}

func VerifC09_ParsePADT() {
	data := vInput("data")
	_, tags, err := ParsePADT(data)
	if err == nil {
		total := 0
		for _, t := range tags {
			total += 4 + len(t.Value)
		}
		vAssert(total <= len(data), "tags longer than the input")
	}
	vReach("end")
}

// Echo replies (identifier + payload) delivered to both keep-alive implementations in any pending state.
func VerifC09_EchoReply() {
	ss, err := NewSession(7, vMACOwner, vMACServer)
	vAssume(err == nil)
	ka := NewSessionKeepAlive(ss, nil, DefaultKeepAliveConfig(), zap.NewNop())
	ka.pendingEcho = ndBool("pending")
	ka.pendingID = ndU8("pending-id")
	data := vInput("data")
	ka.OnEchoReply(ndU8("id"), data)
	m := NewKeepAliveManager(DefaultKeepAliveConfig(), zap.NewNop())
	m.RegisterSession(ss)
	if st := m.states[ss.ID]; st != nil {
		st.PendingEcho = ndBool("m-pending")
		st.PendingEchoID = ndU8("m-pending-id")
	}
	magic, _, _ := ParseEchoPacket(data)
	m.ReceiveEchoReply(ndU16("session"), ndU8("m-id"), magic)
	vReach("end")
}

func init() {
	vHarness["VerifC09_AuthReceive"] = VerifC09_AuthReceive
	vHarness["VerifC09_ParseEchoPacket"] = VerifC09_ParseEchoPacket
	vHarness["VerifC09_ParsePADT"] = VerifC09_ParsePADT
	vHarness["VerifC09_EchoReply"] = VerifC09_EchoReply
}
