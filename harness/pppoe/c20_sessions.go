//go:build verif

package pppoe

import "net"

var vMACs = []net.HardwareAddr{vMACOwner, vMACOwner2, vMACForeign}

func verifSMInvariant(m *SessionManager) {
	for id, s := range m.sessions {
		vAssert(s != nil && s.ID == id, "session stored under a different id")
		vAssert(id != 0, "session id 0 (reserved) in use")
		idx, ok := m.macToSession[s.ClientMAC.String()]
		vAssert(ok, "live session whose MAC has no index entry (lookup by MAC misses a live subscriber)")
		if ok {
			t := m.sessions[idx]
			vAssert(t != nil && t.ClientMAC.String() == s.ClientMAC.String(), "MAC index points to a missing or foreign session")
		}
	}
	for mac, id := range m.macToSession {
		s := m.sessions[id]
		vAssert(s != nil && s.ClientMAC.String() == mac, "MAC index entry without the matching session")
	}
}

// One inductive step over the session table: <=2 existing sessions with arbitrary ids (incl. the 16-bit wrap-around
// region), possibly from the same MAC; one operation; ids stay unique, lookups agree in both directions.
func VerifC20_SessionManagerStep() {
	m := NewSessionManager()
	m.nextID = ndU16("nextID")
	vAssume(m.nextID != 0) // representation invariant: the id counter skips 0
	var ids [2]uint16
	var macs [2]int
	n := ndPick("nsessions", 3)
	for i := 0; i < n; i++ {
		id := ndU16("id")
		vAssume(id != 0)
		if i == 1 {
			vAssume(id != ids[0])
		}
		mi := ndPick("mac", 2)
		s, err := NewSession(id, vMACs[mi], vMACServer)
		vAssume(err == nil)
		m.sessions[id] = s
		m.macToSession[vMACs[mi].String()] = id
		ids[i], macs[i] = id, mi
	}
	switch ndPick("op", 3) {
	case 0:
		mi := ndPick("newmac", 3)
		s, err := m.CreateSession(vMACs[mi], vMACServer)
		if err == nil {
			vAssert(s.ID != 0, "created session has the reserved id 0")
			for i := 0; i < n; i++ {
				vAssert(s.ID != ids[i], "new session was given an id that is still in use")
				old := m.GetSession(ids[i])
				vAssert(old != nil && old.ClientMAC.String() == vMACs[macs[i]].String(), "creating a session displaced an existing one")
			}
			vAssert(m.GetSession(s.ID) == s, "forward lookup of the new id")
			vAssert(m.GetSessionByMAC(vMACs[mi]) == s, "reverse lookup of the new session's MAC")
		}
	case 1:
		id := ndU16("rmid")
		m.RemoveSession(id)
		vAssert(m.GetSession(id) == nil, "removed id still resolves")
		for i := 0; i < n; i++ {
			if ids[i] != id {
				vAssert(m.GetSession(ids[i]) != nil, "removing one id removed another session")
			}
		}
	case 2:
		vAdvance(int64(ndInt("dt", 0, 1<<40)))
		m.CleanupExpired(ndDuration("timeout"))
	}
	verifSMInvariant(m)
	vAssert(m.nextID != 0, "id counter reached the reserved value 0")
	vReach("end")
}

func init() { vHarness["VerifC20_SessionManagerStep"] = VerifC20_SessionManagerStep }
