//go:build verif

package pppoe

import (
	"context"
	"net"

	"github.com/codelaboratoryltd/bng/pkg/radius"
	"go.uber.org/zap"
)

// verifPoolConsistent: every allocated address belongs to a live session, nothing is both free and allocated,
// no address is in the free list twice.
func verifPoolConsistent(s *Server, when string) {
	p := s.clientIPPool
	for sid, ip := range p.allocated {
		live := false
		for _, ss := range s.sessions.GetAllSessions() {
			if ss.SessionID == sid {
				live = true
			}
		}
		vAssert(live, when+": an address stays allocated to a session that no longer exists")
		for _, f := range p.available {
			vAssert(!f.Equal(ip), when+": an address is both allocated and free")
		}
	}
	for i, a := range p.available {
		for j, b := range p.available {
			if i < j {
				vAssert(!a.Equal(b), when+": an address is in the free list twice")
			}
		}
	}
	vAssert(len(p.allocated)+len(p.available) == 3, when+": an address was lost from the pool")
}

// One step of the PPPoE server from an arbitrary state: up to two sessions in arbitrary protocol states (with or
// without an address), then ANY frame (discovery or session ethertype, arbitrary bytes, from an owner or a foreign MAC)
// or the idle-timeout tick. Whatever ends a session - PADT, LCP Terminate-Request, failed (re-)authentication, idle
// timeout - afterwards a session that is gone holds no address and is unreachable by id and by MAC.
func VerifC16_PPPoEStep() {
	s, _ := verifServer()
	if ndPick("radius", 2) == 1 {
		s.radiusClient = &radius.Client{}
	}
	owners := []net.HardwareAddr{vMACOwner, vMACOwner2}
	nsess := vParam("nsess", 1)
	var sess []*Session
	for i := 0; i < nsess; i++ {
		ss, err := s.sessions.CreateSession(owners[i], s.serverMAC)
		vAssume(err == nil)
		ss.State = SessionState(ndInt("state", int(StateLCPNegotiation), int(StateClosed)))
		ss.Authenticated = ndBool("authed")
		if ndBool("hasIP") {
			ss.ClientIP = s.clientIPPool.Allocate(ss.SessionID)
			vAssume(ss.State != StateClosed) // invariant: a closed session holds no address
		}
		for _, other := range sess {
			// accounting ids are 64 random bits: a collision between two live sessions is assumed away
			vAssume(other.SessionID != ss.SessionID)
		}
		sess = append(sess, ss)
	}
	verifPoolConsistent(s, "before")
	switch ndPick("event", 3) {
	case 0:
		src := []net.HardwareAddr{vMACOwner, vMACOwner2, vMACForeign}[ndPick("src", 3)]
		s.handleDiscovery(src, vInput("frame"))
	case 1:
		src := []net.HardwareAddr{vMACOwner, vMACOwner2, vMACForeign}[ndPick("src", 3)]
		s.handleSession(src, vInput("frame"))
	case 2:
		// idle timeout: the clock moves on and the cleanup tick fires (the ticker of cleanupLoop delivers one tick)
		vTag("idle-timeout")
		vAdvance(int64(ndDuration("idle")))
		go s.cleanupLoop(context.Background())
	}
	vRunPending()
	for _, ss := range sess {
		if ss.GetState() == StateClosed {
			vReach("session-closed")
			_, holds := s.clientIPPool.allocated[ss.SessionID]
			vAssert(!holds, "a session that was closed (failed authentication, terminate) still holds its address")
		}
		if s.sessions.GetSession(ss.ID) != ss {
			vReach("session-ended")
			_, holds := s.clientIPPool.allocated[ss.SessionID]
			vAssert(!holds, "a session that ended still holds its address")
			vAssert(s.sessions.GetSessionByMAC(ss.ClientMAC) != ss, "a session that ended is still reachable by MAC")
		}
	}
	verifPoolConsistent(s, "after")
	vReach("end")
}

type vTeardownWorld struct {
	t        *SessionTeardown
	pool     *IPPool
	sm       *SessionManager
	removals int // eBPF "remove subscriber" updates
	padts    int
	during   func() // another termination path that arrives while the server is sending its PADT
}

func verifTeardown() *vTeardownWorld {
	vRadiusServer(1)
	w := &vTeardownWorld{sm: NewSessionManager(), pool: &IPPool{
		network: &net.IPNet{IP: net.IP{10, 0, 0, 0}, Mask: net.IPMask{255, 255, 255, 248}}, gateway: net.IP{10, 0, 0, 1},
		available: []net.IP{{10, 0, 0, 2}, {10, 0, 0, 3}, {10, 0, 0, 4}}, allocated: map[string]net.IP{}}}
	cfg := DefaultTeardownConfig()
	cfg.PADTRetries = 0
	w.t = NewSessionTeardown(cfg, zap.NewNop())
	w.t.SetRADIUSClient(radius.VerifAcctClient())
	w.t.SetIPPool(w.pool)
	w.t.SetSessionManager(w.sm)
	w.t.SetSendPADT(func(*Session, []Tag) {
		w.padts++
		if f := w.during; f != nil {
			w.during = nil
			f()
		}
	})
	w.t.SetSendLCPTermReq(func(*Session, string) {})
	w.t.SetUpdateEBPFMaps(func(_ *Session, remove bool) error {
		if remove {
			w.removals++
		}
		return nil
	})
	return w
}

// SessionTeardown: every termination entry point (client PADT, server-initiated with any cause, admin by id / MAC /
// username, terminate-all at shutdown), applied once, twice, or by two paths that both looked the session up before
// either cleaned it: address back in the pool once, kernel entry removed once, session gone, exactly one
// Accounting-Stop for an authenticated session and none otherwise.
func VerifC16_Teardown() {
	w := verifTeardown()
	ss, err := w.sm.CreateSession(vMACOwner, vMACServer)
	vAssume(err == nil)
	ss.Username = "alice"
	ss.Authenticated = ndBool("authed")
	stage := ndPick("stage", 4) // how far establishment got: LCP, authenticated without address, fully established, established but already marked closed by the PPP layer
	switch stage {
	case 0:
		ss.State = StateLCPNegotiation
		vAssume(!ss.Authenticated)
	case 1:
		ss.State = StateIPCPNegotiation
	case 2:
		ss.State = StateEstablished
		ss.ClientIP = w.pool.Allocate(ss.SessionID)
	case 3:
		// a failed re-authentication or the peer's LCP terminate marked the session closed; it still holds everything
		ss.State = StateClosed
		ss.ClientIP = w.pool.Allocate(ss.SessionID)
	}
	ss.BytesIn, ss.BytesOut = ndU64("in"), ndU64("out")
	end := func(path int) {
		switch path {
		case 0:
			_ = w.t.HandleClientPADT(ss, vMACOwner, ss.ID) // the caller looked the session up (possibly before another path ended it)
		case 1:
			cause := []TerminateCause{TerminateCauseIdleTimeout, TerminateCauseSessionTimeout, TerminateCauseAdminReset, TerminateCauseNASRequest, TerminateCauseLostCarrier}[ndPick("cause", 5)]
			_ = w.t.TerminateSession(ss, cause, "")
		case 2:
			_ = w.t.TerminateByID(ss.ID, "admin")
		case 3:
			_ = w.t.TerminateByMAC(vMACOwner, "admin")
		case 4:
			w.t.TerminateByUsername("alice", "admin")
		case 5:
			w.t.TerminateAll(TerminateCauseNASReboot, "shutdown")
		}
		vRunPending()
	}
	check := func(when string) {
		_, holds := w.pool.allocated[ss.SessionID]
		vAssert(!holds && len(w.pool.allocated) == 0, when+": the session still holds its address")
		vAssert(len(w.pool.available) == 3, when+": the pool does not have every address free exactly once")
		vAssert(w.sm.GetSession(ss.ID) == nil && w.sm.GetSessionByMAC(vMACOwner) == nil && w.sm.Count() == 0, when+": the session is still registered")
		vAssert(w.removals == 1, when+": the kernel session entry was not removed exactly once")
		stops := radius.VerifAcctCount("", radius.AcctStatusStop)
		if ss.Authenticated {
			vAssert(stops == 1, when+": not exactly one Accounting-Stop for an authenticated session")
		} else {
			vAssert(stops == 0, when+": Accounting-Stop for a session that never authenticated")
		}
	}
	first := ndPick("end", 6)
	if first > 0 && ndPick("overlap", 2) == 1 {
		// the client's own PADT (or an admin action) crosses the server-side termination: it is handled to completion
		// while the first path is between its entry and its cleanup (sending PADT, waiting for the retry delay)
		vTag("two-paths-at-once")
		other := ndPick("other", 2)
		w.during = func() {
			if other == 0 {
				_ = w.t.HandleClientPADT(ss, vMACOwner, ss.ID)
			} else {
				_ = w.t.TerminateSession(ss, TerminateCauseAdminReset, "")
			}
		}
	}
	end(first)
	check("after the session ended")
	if again := ndPick("again", 7); again < 6 {
		vTag("twice")
		end(again)
		check("after the session was ended a second time")
	}
	vReach("end")
}

func init() {
	vHarness["VerifC16_PPPoEStep"] = VerifC16_PPPoEStep
	vHarness["VerifC16_Teardown"] = VerifC16_Teardown
}
