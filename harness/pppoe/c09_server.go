//go:build verif

package pppoe

// C09: the server's frame handlers never panic, for any frame and any session state.

func VerifC09_HandleDiscovery() {
	s, _ := verifServer()
	verifSessionAny(s, vMACOwner, "s1")
	data := vInput("frame")
	s.handleDiscovery(vMACOwner, data)
	vRunPending()
	vReach("end")
}

func VerifC09_HandleSession() {
	s, _ := verifServer()
	sess := verifSessionAny(s, vMACOwner, "s1")
	if ndBool("hasIP") {
		sess.ClientIP = s.clientIPPool.Allocate(sess.SessionID)
	}
	data := vInput("frame")
	s.handleSession(vMACOwner, data)
	vReach("end")
}

func init() {
	vHarness["VerifC09_HandleDiscovery"] = VerifC09_HandleDiscovery
	vHarness["VerifC09_HandleSession"] = VerifC09_HandleSession
}
