//go:build verif

package pppoe

import (
	"net"

	"go.uber.org/zap"
)

// vSock is the in-package fake raw socket: it records every frame the server transmits.
type vSock struct {
	frames [][]byte
	rx     [][]byte // frames the network delivers, in order; when they are used up recv stops the receive loop
}

// vStop is what the scripted socket panics with once every scripted frame was delivered (the real loop has no exit).
type vStop struct{}

func (v *vSock) open(iface string, etherType uint16) error { return nil }
func (v *vSock) close() error                              { return nil }
func (v *vSock) recv(buf []byte) (int, error) {
	if len(v.rx) == 0 {
		if v.rx != nil {
			panic(vStop{})
		}
		return 0, nil
	}
	f := v.rx[0]
	v.rx = v.rx[1:]
	return copy(buf, f), nil
}
func (v *vSock) send(iface string, dst net.HardwareAddr, etherType uint16, data []byte) error {
	v.frames = append(v.frames, data)
	return nil
}

var (
	vMACOwner   = net.HardwareAddr{0x02, 0, 0, 0, 0, 0x0a}
	vMACOwner2  = net.HardwareAddr{0x02, 0, 0, 0, 0, 0x0b}
	vMACForeign = net.HardwareAddr{0x02, 0, 0, 0, 0, 0x0f}
	vMACServer  = net.HardwareAddr{0x02, 0, 0, 0, 0, 0x01}
)

// verifServer builds the post-constructor state of a Server directly (NewServer needs a real interface).
func verifServer() (*Server, *vSock) {
	sock := &vSock{}
	pool := &IPPool{
		network:   &net.IPNet{IP: net.IP{10, 0, 0, 0}, Mask: net.IPMask{255, 255, 255, 248}},
		gateway:   net.IP{10, 0, 0, 1},
		available: []net.IP{{10, 0, 0, 2}, {10, 0, 0, 3}, {10, 0, 0, 4}},
		allocated: map[string]net.IP{},
	}
	s := &Server{
		iface: "eth0", serverMAC: vMACServer, acName: "AC", serviceName: "internet", logger: zap.NewNop(),
		sessions: NewSessionManager(), serverIP: net.IP{10, 0, 0, 1}, clientIPPool: pool,
		primaryDNS: net.IP{10, 0, 0, 53}, authType: "pap", mru: 1492, socket: sock,
	}
	return s, sock
}

// verifSessionAny creates a session for mac and puts it into an arbitrary protocol state that the
// server itself can produce (state, authentication flag and address consistent with the handlers).
func verifSessionAny(s *Server, mac net.HardwareAddr, tag string) *Session {
	sess, err := s.sessions.CreateSession(mac, s.serverMAC)
	vAssume(err == nil)
	st := ndInt(tag+".state", int(StateLCPNegotiation), int(StateEstablished))
	sess.State = SessionState(st)
	return sess
}

// verifRefOptions walks a Configure option list by RFC 1661 section 6, independently of the parser under test:
// type, length (>= 2, within the list), data. It returns the options and whether the whole list was consumed; a
// single dangling byte cannot hold an option and is tolerated (the parser under test ignores it too).
func verifRefOptions(b []byte) (opts []LCPOption, examined bool) {
	for len(b) >= 2 {
		l := int(b[1])
		if l < 2 || l > len(b) {
			return opts, false
		}
		opts = append(opts, LCPOption{Type: b[0], Data: b[2:l]})
		b = b[l:]
	}
	return opts, true
}
