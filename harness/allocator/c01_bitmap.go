//go:build verif

package allocator

import (
	"math/big"
	"net"
)

var vKeys = []string{"subA", "subB", "subC", "subD"}

// verifIPAllocAny builds the post-constructor layout of an IPAllocator directly and fills it with an arbitrary
// state over the key universe {subA,subB,subC} that satisfies the representation invariant
// (A1 allocated/indexToSubscriber inverse bijections, A2 bit i <=> i owned, A3 index < total, A4 count = |allocated|).
func verifIPAllocAny() (*IPAllocator, uint64) {
	a := &IPAllocator{bitmap: big.NewInt(0), allocatedCount: big.NewInt(0), nextFree: big.NewInt(0),
		allocated: make(map[string]uint64), indexToSubscriber: make(map[uint64]string)}
	var total uint64
	switch ndPick("geometry", 3) {
	case 0: // 10.1.2.8/29, /32 units
		a.baseIP, a.baseMask, a.prefixLen, a.poolPrefix = net.IP{10, 1, 2, 8}, net.CIDRMask(29, 32), 32, 29
		total, a.step = 8, big.NewInt(1)
		if vParam("units", 8) < 8 {
			a.baseMask, a.poolPrefix, total = net.CIDRMask(30, 32), 30, 4
			a.baseIP[3] &= 0xFC
		}
	case 1: // 10.255.255.240/28 (top of the range), /30 units
		a.baseIP, a.baseMask, a.prefixLen, a.poolPrefix = net.IP{10, 255, 255, 240}, net.CIDRMask(28, 32), 30, 28
		total, a.step = 4, big.NewInt(4)
	case 2: // 2001:db8:0:8::/61, /64 delegated prefixes
		a.baseIP = net.IP{0x20, 0x01, 0x0d, 0xb8, 0, 0, 0, 8, 0, 0, 0, 0, 0, 0, 0, 0}
		a.baseMask, a.prefixLen, a.poolPrefix, a.isIPv6 = net.CIDRMask(61, 128), 64, 61, true
		total, a.step = 8, new(big.Int).Lsh(big.NewInt(1), 64)
		if vParam("units", 8) < 8 {
			a.baseMask, a.poolPrefix, total = net.CIDRMask(62, 128), 62, 4
		}
	}
	a.totalPrefixes = new(big.Int).SetUint64(total)
	// indices are control choices (forked); the base address is concrete because the 128-bit big.Int model does not cancel base+off-base symbolically
	a.nextFree.SetUint64(uint64(ndPick("nextFree", int(total)+1)))
	n := 0
	for _, k := range vKeys[:vParam("keys", 2)] {
		if c := ndPick(k+".idx", int(total)+1); c > 0 {
			idx := uint64(c - 1)
			_, taken := a.indexToSubscriber[idx]
			vAssume(!taken)
			a.allocated[k] = idx
			a.indexToSubscriber[idx] = k
			a.bitmap.SetBit(a.bitmap, int(idx), 1)
			n++
		}
	}
	a.allocatedCount.SetUint64(uint64(n))
	return a, total
}

func verifIPAllocInvariant(a *IPAllocator, total uint64, countExact bool) {
	for k, idx := range a.allocated {
		vAssert(idx < total, "allocated index beyond the pool")
		back, ok := a.indexToSubscriber[idx]
		vAssert(ok && back == k, "two subscribers share one prefix (reverse index names another holder)")
		vAssert(a.bitmap.Bit(int(idx)) == 1, "held prefix is not marked in the bitmap")
	}
	for idx, k := range a.indexToSubscriber {
		back, ok := a.allocated[k]
		vAssert(ok && back == idx, "reverse index entry without the matching allocation")
	}
	for i := uint64(0); i < total; i++ {
		if a.bitmap.Bit(int(i)) == 1 {
			_, ok := a.indexToSubscriber[i]
			vAssert(ok, "bitmap bit set for a prefix nobody holds (leaked unit)")
		}
	}
	if countExact {
		vAssert(a.allocatedCount.Uint64() == uint64(len(a.allocated)), "reported allocated count differs from the number of holders")
	}
}

// verifArgPrefix picks the prefix argument of an operation: any unit of the pool, or (IPv4 geometries) a prefix of
// the right length that lies 1..total units below the pool base or just above its end.
func verifArgPrefix(a *IPAllocator, total uint64) (*net.IPNet, bool) {
	c := ndPick("argidx", int(total)+2)
	if uint64(c) < total || a.isIPv6 {
		return a.getPrefixByIndex(uint64(c) % total), true
	}
	step := uint32(a.step.Uint64())
	b := a.baseIP.To4()
	base := uint32(b[0])<<24 | uint32(b[1])<<16 | uint32(b[2])<<8 | uint32(b[3])
	var v uint32
	if uint64(c) == total {
		v = base - step*uint32(1+ndPick("units-below", int(total)))
	} else {
		v = base + step*uint32(total)
	}
	return &net.IPNet{IP: net.IP{byte(v >> 24), byte(v >> 16), byte(v >> 8), byte(v)}, Mask: net.CIDRMask(a.prefixLen, 32)}, false
}

func verifOutside(a *IPAllocator, p *net.IPNet, err error, k string, heldBefore *net.IPNet) {
	vTag("prefix-outside-pool")
	vAssert(err != nil, "an operation accepted a prefix outside the pool")
	vAssert(!a.Contains(p) && !a.IsAllocated(p) && a.LookupByPrefix(p) == "", "a prefix outside the pool is reported as contained / allocated")
	got := a.Lookup(k)
	vAssert((got == nil) == (heldBefore == nil) && (got == nil || got.IP.Equal(heldBefore.IP)), "a refused out-of-pool operation changed what the subscriber holds")
}

func verifIPAllocStep(c05 bool) {
	a, total := verifIPAllocAny()
	base := a.BaseNetwork()
	op := ndPick("op", 5)
	who := ndPick("who", vParam("keys", 2)+1)
	k := vKeys[who]
	heldBefore := a.Lookup(k)
	switch op {
	case 0:
		p, err := a.Allocate(k)
		if err == nil {
			vAssert(base.Contains(p.IP), "allocated prefix outside the pool")
			ones, _ := p.Mask.Size()
			vAssert(ones == a.prefixLen, "allocated prefix has the wrong length")
			if heldBefore != nil {
				vAssert(p.IP.Equal(heldBefore.IP), "a holder asking again received a different prefix")
			}
		} else if c05 {
			vAssert(uint64(len(a.allocated)) >= total, "exhaustion reported while a unit is free")
		}
	case 1:
		p, inside := verifArgPrefix(a, total)
		err := a.AllocateSpecific(k, p)
		if !inside {
			verifOutside(a, p, err, k, heldBefore)
		}
	case 2:
		_ = a.Release(k)
		vAssert(a.Lookup(k) == nil, "released subscriber still holds a prefix")
	case 3:
		p, inside := verifArgPrefix(a, total)
		err := a.ReleasePrefix(p)
		if !inside {
			verifOutside(a, p, err, k, heldBefore)
		}
	case 4:
		p, inside := verifArgPrefix(a, total)
		err := a.SetAllocation(k, p)
		if !inside {
			verifOutside(a, p, err, k, heldBefore)
		} else if err == nil {
			got := a.Lookup(k)
			vAssert(got != nil && got.IP.Equal(p.IP), "SetAllocation succeeded but the subscriber does not hold the announced prefix")
		}
	}
	verifIPAllocInvariant(a, total, c05)
	if c05 {
		// no leak: a fresh subscriber can obtain a unit unless every unit is held
		if uint64(len(a.allocated)) < total {
			_, err := a.Allocate("fresh")
			vAssert(err == nil, "a free unit exists but a new subscriber cannot obtain it")
		}
		al, tot, _ := a.Stats()
		vAssert(tot == total, "reported total differs from the number of units")
		_ = al
	}
	vReach("end")
}

func VerifC01_BitmapStep() { verifIPAllocStep(false) }
func VerifC05_BitmapStep() { verifIPAllocStep(true) }

func init() {
	vHarness["VerifC01_BitmapStep"] = VerifC01_BitmapStep
	vHarness["VerifC05_BitmapStep"] = VerifC05_BitmapStep
}
