//go:build verif

package allocator

import (
	"context"
	"net"
)

// verifEpochAny: arbitrary EpochBitmapAllocator state over keys {subA,subB}: arbitrary 64-bit epoch, arbitrary
// generation tags for every slot, subject to the representation invariant
//   I1/I2 subscribers and ipToSubscriber are inverse bijections with 1 <= idx <= total-2
//   I3    a slot owned by a subscriber carries a non-free generation
// and (when noLeak) L: a usable slot that nobody owns carries a free generation.
func verifEpochAny(noLeak bool) *EpochBitmapAllocator {
	total := uint64(vParam("units", 8))
	a := &EpochBitmapAllocator{
		baseIP: net.IP{10, 9, 8, 0}, mask: net.CIDRMask(32-log2u(total), 32), prefixLength: 32, totalIPs: total,
		generations: ndBytes("gen", int((total+3)/4)), subscribers: map[string]uint64{}, ipToSubscriber: map[uint64]string{},
		currentEpoch: ndU64("epoch"), gracePeriod: uint64(1 + ndPick("grace-1", 2)), nextFreeHint: uint64(ndPick("hint", int(total))),
	}
	for _, k := range vKeys[:2] {
		if c := ndPick(k+".idx", int(total)-1); c > 0 {
			idx := uint64(c) // 1..total-2
			_, taken := a.ipToSubscriber[idx]
			vAssume(!taken)
			a.subscribers[k] = idx
			a.ipToSubscriber[idx] = k
			vAssume(!a.isGenerationFree(a.getGeneration(idx), a.freeThreshold()))
		}
	}
	if noLeak {
		for idx := uint64(1); idx < total-1; idx++ {
			if _, owned := a.ipToSubscriber[idx]; !owned {
				vAssume(a.isGenerationFree(a.getGeneration(idx), a.freeThreshold()))
			}
		}
	}
	return a
}

func log2u(n uint64) int {
	r := 0
	for n > 1 {
		n >>= 1
		r++
	}
	return r
}

func verifEpochInvariant(a *EpochBitmapAllocator) {
	for k, idx := range a.subscribers {
		vAssert(idx >= 1 && idx <= a.totalIPs-2, "assigned index is the network/broadcast slot or outside the pool")
		back, ok := a.ipToSubscriber[idx]
		vAssert(ok && back == k, "two subscribers share one address (reverse index names another holder)")
		vAssert(!a.isGenerationFree(a.getGeneration(idx), a.freeThreshold()), "an owned slot looks free (it can be handed to a second subscriber)")
	}
	for idx, k := range a.ipToSubscriber {
		back, ok := a.subscribers[k]
		vAssert(ok && back == idx, "reverse index entry without the matching assignment")
	}
}

func verifEpochStep(c05 bool) {
	a := verifEpochAny(c05)
	ctx := context.Background()
	op := ndPick("op", 5)
	who := ndPick("who", 3)
	k := vKeys[who]
	held := a.Lookup(k)
	switch op {
	case 0:
		vTag("op=Allocate")
		ip, err := a.Allocate(ctx, k)
		if err == nil {
			vAssert(len(ip) == 4 && ip[0] == 10 && ip[1] == 9 && ip[2] == 8 && uint64(ip[3]) >= 1 && uint64(ip[3]) <= a.totalIPs-2, "allocated address outside the usable range")
			if held != nil {
				vAssert(ip.Equal(held), "a holder asking again received a different address")
			}
		} else if c05 {
			vAssert(uint64(len(a.subscribers)) >= a.totalIPs-2, "exhaustion reported while an address is free")
		}
	case 1:
		vTag("op=Renew")
		_ = a.Renew(ctx, k)
	case 2:
		vTag("op=Release")
		if a.gracePeriod >= 2 {
			vTag("grace>=2")
		}
		_ = a.Release(ctx, k)
		vAssert(a.Lookup(k) == nil, "released subscriber still holds an address")
	case 3:
		vTag("op=AdvanceEpoch")
		a.AdvanceEpoch()
	case 4:
		vTag("op=Renew+AdvanceEpoch")
		if a.Renew(ctx, k) == nil {
			a.AdvanceEpoch()
			now := a.Lookup(k)
			vAssert(now != nil && held != nil && now.Equal(held), "a lease renewed within its grace period was reclaimed")
		}
	}
	verifEpochInvariant(a)
	if c05 {
		// L: every usable address not held by a live subscriber is obtainable, and the figures are exact
		live := uint64(0)
		for idx := uint64(1); idx < a.totalIPs-1; idx++ {
			if _, owned := a.ipToSubscriber[idx]; owned {
				live++
			} else {
				vAssert(a.isGenerationFree(a.getGeneration(idx), a.freeThreshold()), "an address nobody holds is not obtainable (leaked)")
			}
		}
		alloc, tot, _ := a.Stats()
		vAssert(tot == a.totalIPs-2, "reported total differs from the number of usable addresses")
		vAssert(alloc == live, "reported allocated count differs from the number of live holders")
	}
	vReach("end")
}

func VerifC01_EpochStep() { verifEpochStep(false) }
func VerifC05_EpochStep() { verifEpochStep(true) }

func init() {
	vHarness["VerifC01_EpochStep"] = VerifC01_EpochStep
	vHarness["VerifC05_EpochStep"] = VerifC05_EpochStep
}
