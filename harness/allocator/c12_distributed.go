//go:build verif

package allocator

import (
	"time"
	"context"
	"errors"
	"net"
	"strings"
)

// vStore is the backing store: a key/value table with call-indexed write failures and a chosen enumeration order.
type vStore struct {
	kv       map[string][]byte
	order    []string // insertion order of keys
	calls    int
	failAt   int // the failAt-th mutating call fails (-1: never)
	reversed bool
}

func newVStore() *vStore { return &vStore{kv: map[string][]byte{}, failAt: -1} }

func (s *vStore) fail() bool {
	s.calls++
	return s.calls-1 == s.failAt
}
func (s *vStore) Get(ctx context.Context, key string) ([]byte, error) {
	if v, ok := s.kv[key]; ok {
		return v, nil
	}
	return nil, errors.New("not found")
}
func (s *vStore) Put(ctx context.Context, key string, value []byte) error {
	if s.fail() {
		return errors.New("store unavailable")
	}
	if _, ok := s.kv[key]; !ok {
		s.order = append(s.order, key)
	}
	s.kv[key] = value
	return nil
}
func (s *vStore) Delete(ctx context.Context, key string) error {
	if s.fail() {
		return errors.New("store unavailable")
	}
	if _, ok := s.kv[key]; ok {
		delete(s.kv, key)
		for i, k := range s.order {
			if k == key {
				s.order = append(s.order[:i:i], s.order[i+1:]...)
				break
			}
		}
	}
	return nil
}
func (s *vStore) Query(ctx context.Context, prefix string) ([]KeyValue, error) {
	var out []KeyValue
	for _, k := range s.order {
		if strings.HasPrefix(k, prefix) {
			out = append(out, KeyValue{Key: k, Value: s.kv[k]})
		}
	}
	if s.reversed {
		for i, j := 0, len(out)-1; i < j; i, j = i+1, j-1 {
			out[i], out[j] = out[j], out[i]
		}
	}
	return out, nil
}
func (s *vStore) Watch(prefix string, cb func(key string, value []byte, deleted bool)) {}

// subscriber identifiers as deployments form them (line identifiers contain '/'); two of them share their last segment
var vC12Keys = []string{"olt1/0/3", "olt2/0/3", "subC", "subD"}

func verifDA(store Store) *DistributedAllocator {
	mode, base := PoolModeSession, "10.7.0.0/30"
	if vParam("lease", 0) == 1 {
		mode, base = PoolModeLease, "10.7.0.0/29" // the lease allocator never assigns the first and last address
	}
	da, err := NewDistributedAllocator(DistributedConfig{PoolID: "p1", BaseNetwork: base, PrefixLen: 32, Mode: mode, EpochPeriod: time.Hour}, store)
	vAssume(err == nil)
	return da
}

func verifPrefix(i int) *net.IPNet {
	if vParam("lease", 0) == 1 {
		i++
	}
	return &net.IPNet{IP: net.IP{10, 7, 0, byte(i)}, Mask: net.CIDRMask(32, 32)}
}

// verifAgree: what the allocator answers for every subscriber equals what the store records.
func verifAgree(da *DistributedAllocator, st *vStore, what string, conflicted map[string]bool) {
	ctx := context.Background()
	// conservation: the allocator counts exactly the subscribers that hold something
	holders := 0
	for _, k := range vC12Keys[:3] {
		if _, has := da.Get(k); has {
			holders++
		}
	}
	vAssert(da.Stats().Allocated == holders, what+": the allocated count differs from the number of holders (leaked or lost unit)")
	for _, k := range vC12Keys[:3] {
		if conflicted[k] {
			// another node recorded this subscriber at an address held here by someone else: which record wins is
			// outside this property
			continue
		}
		mem, has := da.Get(k)
		rec, err := da.getAllocation(ctx, k)
		if err != nil {
			vAssert(!has, what+": the allocator holds a prefix for a subscriber the store does not record")
		} else {
			vAssert(has && mem.String() == rec.Prefix, what+": store and allocator disagree on a subscriber's prefix")
		}
	}
}

// Bounded histories of local operations, remote announcements and one store write failure, then a stop and a restart
// from the same store (either enumeration order): every recorded subscriber keeps its prefix, nobody shares one.
func VerifC12_SessionHistory() {
	ctx := context.Background()
	st := newVStore()
	da := verifDA(st)
	st.failAt = ndPick("fail-at", 4) - 1 // no failure, or the 1st..3rd store write fails
	// optionally the history starts with some subscribers already served (so that short histories reach conflicts)
	for i := 0; i < vParam("pre", 0); i++ {
		_, err := da.Allocate(ctx, vC12Keys[i])
		vAssume(err == nil)
	}
	k := vParam("K", 3)
	conflicted := map[string]bool{}
	for i := 0; i < k; i++ {
		who := ndPick("who", 3)
		sub := vC12Keys[who]
		switch ndPick("op", 4) {
		case 0:
			before, held := da.Get(sub)
			var p *net.IPNet
			var err error
			if ndPick("with-mac", 2) == 1 {
				p, err = da.AllocateWithMAC(ctx, sub, net.HardwareAddr{2, 0, 0, 0, 0, byte(who + 1)})
			} else {
				p, err = da.Allocate(ctx, sub)
			}
			if err == nil && held {
				vAssert(p.String() == before.String(), "a holder asking again received a different prefix")
			}
			if err == nil {
				delete(conflicted, sub)
			}
			verifAgree(da, st, "after Allocate", conflicted)
		case 1:
			vTag("release")
			_ = da.Release(ctx, sub)
			if st.failAt >= 0 && st.calls > st.failAt {
				vTag("store-write-failed")
			}
			verifAgree(da, st, "after Release", conflicted)
		case 2:
			// another node announces an allocation of `sub` at an arbitrary address of the pool
			idx := ndPick("announced", 4)
			rec := &DistributedAllocation{PoolID: "p1", SubscriberID: sub, Prefix: verifPrefix(idx).String()}
			val := vJSON(rec)
			key := da.allocationKey(sub)
			// the remote node's write lands in the shared store, then the watcher fires
			holderBefore, taken := da.GetByPrefix(verifPrefix(idx))
			heldBefore, hadBefore := da.Get(sub)
			st.kv[key] = val
			present := false
			for _, o := range st.order {
				present = present || o == key
			}
			if !present {
				st.order = append(st.order, key)
			}
			da.handleRemoteChange(key, val, false)
			got, has := da.Get(sub)
			conflicted[sub] = taken && holderBefore != sub
			if conflicted[sub] {
				// the announced address is held by someone else here: the announcement cannot be applied, and what
				// the subscriber held locally must stay exactly as it was (not half-removed)
				after, hasAfter := da.Get(sub)
				vAssert(hasAfter == hadBefore && (!hasAfter || after.String() == heldBefore.String()), "a remote announcement that could not be applied changed what the subscriber holds locally")
				other, still := da.GetByPrefix(verifPrefix(idx))
				vAssert(still && other == holderBefore, "a remote announcement that could not be applied disturbed the holder of the announced address")
			}
			if !conflicted[sub] {
				vAssert(has && got.String() == rec.Prefix, "a change announced by another node was not applied with the address it announces")
			}
		case 3:
			key := da.allocationKey(sub)
			delete(st.kv, key)
			for i, o := range st.order {
				if o == key {
					st.order = append(st.order[:i:i], st.order[i+1:]...)
					break
				}
			}
			da.handleRemoteChange(key, nil, true)
			delete(conflicted, sub)
			_, has := da.Get(sub)
			vAssert(!has, "a remote delete was not applied")
		}
		// nobody shares a prefix
		for a := 0; a < 3; a++ {
			for b := a + 1; b < 3; b++ {
				pa, ha := da.Get(vC12Keys[a])
				pb, hb := da.Get(vC12Keys[b])
				if ha && hb {
					vAssert(pa.String() != pb.String(), "two subscribers hold one prefix")
				}
			}
		}
	}
	// stop (crash or clean) and restart from the store
	st.failAt = -1
	st.reversed = ndPick("query-order", 2) == 1
	da2 := verifDA(st)
	vAssume(da2.loadAllocations(ctx) == nil)
	count := map[string]int{}
	for _, key := range st.order {
		rec, err := da2.getAllocation(ctx, key[len(da.keyPrefix()):])
		vAssume(err == nil)
		count[rec.Prefix]++
	}
	for _, key := range st.order {
		sub := key[len(da.keyPrefix()):]
		rec, _ := da2.getAllocation(ctx, sub)
		if count[rec.Prefix] > 1 || conflicted[sub] {
			// two nodes recorded one prefix for different subscribers: which record wins is outside this property
			continue
		}
		got, has := da2.Get(sub)
		vAssert(has && got.String() == rec.Prefix, "after restart a subscriber recorded in the store does not map to its recorded prefix")
	}
	vReach("end")
}

// PoolAllocator over the in-memory allocation store: a rejected (conflicting) write leaves store and memory in
// agreement - no record of the rejected subscriber anywhere in the store.
func VerifC12_StoreConflict() {
	ctx := context.Background()
	store := NewMemoryAllocationStore()
	// the store already records sub-old at the address a fresh allocator will hand out first (restored store)
	old := AllocationRecord{SubscriberID: "sub-old", PoolID: "p1", PoolType: PoolTypeIPv4Address, Prefix: verifPrefix(0)}
	vAssume(store.SaveAllocation(ctx, old) == nil)
	pa, err := NewPoolAllocator("p1", "10.7.0.0/30", 32, store)
	vAssume(err == nil)
	_, aerr := pa.Allocate(ctx, "sub-new", "")
	vAssert(aerr != nil, "an address recorded for another subscriber was handed out")
	vAssert(pa.Lookup("sub-new") == nil, "rejected allocation still held in memory")
	recs, _ := store.GetBySubscriber(ctx, "sub-new")
	vAssert(len(recs) == 0, "store keeps a record (by subscriber) of an allocation it rejected")
	byPool, _ := store.GetByPool(ctx, "p1")
	vAssert(len(byPool) == 1 && store.Count() == 1, "store keeps a record (by pool) of an allocation it rejected")
	got, gerr := store.GetByIP(ctx, verifPrefix(0).IP)
	vAssert(gerr == nil && got != nil && got.SubscriberID == "sub-old", "the conflicting address no longer resolves to its recorded holder")
	vReach("end")
}

func init() {
	vHarness["VerifC12_SessionHistory"] = VerifC12_SessionHistory
	vHarness["VerifC12_StoreConflict"] = VerifC12_StoreConflict
}
