//go:build verif

package allocator

import (
	"context"
	"net"
)

func verifSameIPNet(a, b *net.IPNet) bool {
	if a == nil || b == nil {
		return a == nil && b == nil
	}
	return a.String() == b.String()
}

// Serialising then restoring an IPAllocator after any bounded history yields one that answers every query
// identically.
func VerifC12_BitmapRoundTrip() {
	v6 := ndPick("family", 2) == 1
	prefix := func(i int) *net.IPNet {
		if v6 {
			return &net.IPNet{IP: net.IP{0x20, 0x01, 0x0d, 0xb8, 0, 0, 0, byte(8 + i), 0, 0, 0, 0, 0, 0, 0, 0}, Mask: net.CIDRMask(64, 128)}
		}
		return verifPrefix(i)
	}
	var a *IPAllocator
	var err error
	if v6 {
		a, err = NewIPAllocator("2001:db8:0:8::/62", 64)
	} else {
		a, err = NewIPAllocator("10.7.0.0/30", 32)
	}
	vAssume(err == nil)
	k := vParam("K", 3)
	for i := 0; i < k; i++ {
		sub := vKeys[ndPick("who", 3)]
		switch ndPick("op", 4) {
		case 0:
			_, _ = a.Allocate(sub)
		case 1:
			_ = a.Release(sub)
		case 2:
			_ = a.AllocateSpecific(sub, prefix(ndPick("addr", 4)))
		case 3:
			_ = a.SetAllocation(sub, prefix(ndPick("addr", 4)))
		}
	}
	data, merr := a.MarshalJSON()
	vAssume(merr == nil)
	// restored into a fresh allocator, or into one that served a pool of the other family before
	b := &IPAllocator{}
	if ndPick("target", 2) == 1 {
		if v6 {
			b, err = NewIPAllocator("10.9.0.0/30", 32)
		} else {
			b, err = NewIPAllocator("2001:db8:0:10::/62", 64)
		}
		vAssume(err == nil)
		_, _ = b.Allocate("someone")
	}
	vAssert(b.UnmarshalJSON(data) == nil, "restoring a serialised allocator failed")
	vAssert(a.IsIPv6() == b.IsIPv6() && a.PrefixLength() == b.PrefixLength(), "restored allocator reports another address family or prefix length")
	for _, s := range vKeys[:3] {
		vAssert(verifSameIPNet(a.Lookup(s), b.Lookup(s)), "restored allocator answers Lookup differently")
	}
	for i := 0; i < 4; i++ {
		p := prefix(i)
		vAssert(a.LookupByPrefix(p) == b.LookupByPrefix(p), "restored allocator answers LookupByPrefix differently")
		vAssert(a.IsAllocated(p) == b.IsAllocated(p), "restored allocator answers IsAllocated differently")
		vAssert(a.Contains(p) == b.Contains(p), "restored allocator answers Contains differently")
	}
	aa, at, _ := a.Stats()
	ba, bt, _ := b.Stats()
	vAssert(aa == ba && at == bt, "restored allocator answers Stats differently")
	la, lb := a.ListAllocations(), b.ListAllocations()
	vAssert(len(la) == len(lb), "restored allocator lists a different number of allocations")
	for _, x := range la {
		found := false
		for _, y := range lb {
			if x.SubscriberID == y.SubscriberID && verifSameIPNet(x.Prefix, y.Prefix) {
				found = true
			}
		}
		vAssert(found, "restored allocator lists an allocation differently")
	}
	// and it keeps allocating without handing out a held address
	for _, s := range vKeys[:3] {
		if b.Lookup(s) == nil {
			if p, err := b.Allocate(s); err == nil {
				for _, o := range vKeys[:3] {
					if o != s && a.Lookup(o) != nil {
						vAssert(a.Lookup(o).String() != p.String(), "restored allocator handed out an address that was held when it was serialised")
					}
				}
			}
			break
		}
	}
	vReach("end")
}

// The same for the epoch (lease) allocator.
func VerifC12_EpochRoundTrip() {
	ctx := context.Background()
	a, err := NewEpochBitmapAllocator(EpochBitmapConfig{BaseNetwork: "10.7.0.0/29", PrefixLength: 32, GracePeriod: 1})
	vAssume(err == nil)
	k := vParam("K", 3)
	for i := 0; i < k; i++ {
		sub := vKeys[ndPick("who", 3)]
		switch ndPick("op", 5) {
		case 0:
			_, _ = a.Allocate(ctx, sub)
		case 1:
			_ = a.Release(ctx, sub)
		case 2:
			_ = a.Renew(ctx, sub)
		case 3:
			a.AdvanceEpoch()
		case 4:
			_ = a.SetAllocation(sub, net.IP{10, 7, 0, byte(1 + ndPick("addr", 4))})
		}
	}
	data, merr := a.MarshalJSON()
	vAssume(merr == nil)
	b := &EpochBitmapAllocator{}
	vAssert(b.UnmarshalJSON(data) == nil, "restoring a serialised allocator failed")
	for _, s := range vKeys[:3] {
		vAssert(a.Lookup(s).Equal(b.Lookup(s)), "restored allocator answers Lookup differently")
	}
	for i := 0; i < 8; i++ {
		ip := net.IP{10, 7, 0, byte(i)}
		vAssert(a.LookupByIP(ip) == b.LookupByIP(ip), "restored allocator answers LookupByIP differently")
	}
	aa, at, _ := a.Stats()
	ba, bt, _ := b.Stats()
	vAssert(aa == ba && at == bt, "restored allocator answers Stats differently")
	vAssert(a.GetCurrentEpoch() == b.GetCurrentEpoch(), "restored allocator answers GetCurrentEpoch differently")
	for _, s := range vKeys[:3] {
		if b.Lookup(s) == nil {
			if p, err := b.Allocate(ctx, s); err == nil {
				for _, o := range vKeys[:3] {
					if o != s && a.Lookup(o) != nil {
						vAssert(!a.Lookup(o).Equal(p), "restored allocator handed out an address that was held when it was serialised")
					}
				}
			}
			break
		}
	}
	vReach("end")
}

// MemoryAllocationStore: after any bounded history of saves and removals its indexes agree (an address resolves to
// exactly the record that holds it, no address is recorded for two subscribers) and serialise/restore answers every
// query identically; PoolAllocator over it keeps allocator and store in agreement when the store rejects a write.
func VerifC12_StoreHistory() {
	ctx := context.Background()
	st := NewMemoryAllocationStore()
	k := vParam("K", 3)
	pools := []string{"p1", "p2"}
	for i := 0; i < k; i++ {
		sub := vKeys[ndPick("who", 3)]
		pool := pools[ndPick("pool", 2)]
		if ndPick("op", 2) == 0 {
			rec := AllocationRecord{SubscriberID: sub, PoolID: pool, PoolType: PoolTypeIPv4Address, Prefix: verifPrefix(ndPick("addr", 3))}
			err := st.SaveAllocation(ctx, rec)
			if err != nil {
				vTag("rejected")
			}
		} else {
			_ = st.RemoveAllocation(ctx, pool, sub)
		}
		verifStoreConsistent(st)
	}
	data, merr := st.MarshalJSON()
	vAssume(merr == nil)
	st2 := NewMemoryAllocationStore()
	vAssert(st2.UnmarshalJSON(data) == nil, "restoring a serialised store failed")
	vAssert(st.Count() == st2.Count(), "restored store answers Count differently")
	for _, s := range vKeys[:3] {
		r1, _ := st.GetBySubscriber(ctx, s)
		r2, _ := st2.GetBySubscriber(ctx, s)
		vAssert(len(r1) == len(r2), "restored store answers GetBySubscriber differently")
	}
	for i := 0; i < 3; i++ {
		g1, e1 := st.GetByIP(ctx, verifPrefix(i).IP)
		g2, e2 := st2.GetByIP(ctx, verifPrefix(i).IP)
		vAssert((e1 == nil) == (e2 == nil), "restored store answers GetByIP differently")
		if e1 == nil && e2 == nil {
			vAssert(g1.SubscriberID == g2.SubscriberID && g1.PoolID == g2.PoolID, "restored store resolves an address to a different record")
		}
	}
	vReach("end")
}

func verifStoreConsistent(st *MemoryAllocationStore) {
	ctx := context.Background()
	for i := 0; i < 3; i++ {
		ip := verifPrefix(i).IP
		holders := 0
		holder, hpool := "", ""
		for _, pool := range []string{"p1", "p2"} {
			recs, _ := st.GetByPool(ctx, pool)
			for _, r := range recs {
				if r.Prefix.IP.Equal(ip) {
					holders++
					holder, hpool = r.SubscriberID, r.PoolID
				}
			}
		}
		vAssert(holders <= 1, "one address is recorded for two subscribers")
		got, err := st.GetByIP(ctx, ip)
		if holders == 1 {
			vAssert(err == nil && got != nil && got.SubscriberID == holder && got.PoolID == hpool, "an address does not resolve to the record that holds it")
		} else {
			vAssert(err != nil || got == nil, "an address nobody holds still resolves to a record")
		}
	}
	for _, s := range vKeys[:3] {
		recs, _ := st.GetBySubscriber(ctx, s)
		for _, r := range recs {
			byPool, _ := st.GetByPool(ctx, r.PoolID)
			found := false
			for _, q := range byPool {
				if q.SubscriberID == s && q.Prefix.String() == r.Prefix.String() {
					found = true
				}
			}
			vAssert(found, "subscriber index and pool index disagree")
		}
	}
}

// PoolAllocator over a store that may reject or fail a write: allocator and store agree afterwards.
func VerifC12_PoolAllocatorFaults() {
	ctx := context.Background()
	store := NewMemoryAllocationStore()
	// records restored into the store before this allocator started (another instance's allocations)
	n := ndPick("restored", 3)
	for i := 0; i < n; i++ {
		vAssume(store.SaveAllocation(ctx, AllocationRecord{SubscriberID: "old-" + vKeys[i], PoolID: "p1", PoolType: PoolTypeIPv4Address, Prefix: verifPrefix(i)}) == nil)
	}
	pa, err := NewPoolAllocator("p1", "10.7.0.0/30", 32, store)
	vAssume(err == nil)
	k := vParam("K", 3)
	for i := 0; i < k; i++ {
		sub := vKeys[ndPick("who", 2)]
		if ndPick("op", 2) == 0 {
			p, err := pa.Allocate(ctx, sub, "")
			if err == nil {
				got, gerr := store.GetByIP(ctx, p.IP)
				vAssert(gerr == nil && got != nil && got.SubscriberID == sub, "an address recorded for another subscriber was handed out")
			}
		} else {
			_ = pa.Release(ctx, sub)
		}
		for _, s := range vKeys[:2] {
			mem := pa.Lookup(s)
			recs, _ := store.GetBySubscriber(ctx, s)
			if mem == nil {
				vAssert(len(recs) == 0, "store keeps a record of an allocation the allocator does not hold")
			} else {
				vAssert(len(recs) == 1 && recs[0].Prefix.String() == mem.String(), "store and allocator disagree on a subscriber's prefix")
			}
		}
		verifStoreConsistent(store)
	}
	vReach("end")
}

func init() {
	vHarness["VerifC12_BitmapRoundTrip"] = VerifC12_BitmapRoundTrip
	vHarness["VerifC12_EpochRoundTrip"] = VerifC12_EpochRoundTrip
	vHarness["VerifC12_StoreHistory"] = VerifC12_StoreHistory
	vHarness["VerifC12_PoolAllocatorFaults"] = VerifC12_PoolAllocatorFaults
}
