//go:build verif

package dhcp

import "github.com/insomniacslk/dhcp/dhcpv4"

// DHCPv4 relay agent information (Option 82) with arbitrary content.
func VerifC09_Option82() {
	b := vParam("B", 12)
	n := ndInt("opt82.len", 0, b)
	raw := ndBytes("opt82", b)[:n]
	req := verifV4Plain(dhcpv4.MessageTypeDiscover, 0)
	req.UpdateOption(dhcpv4.OptGeneric(dhcpv4.OptionRelayAgentInformation, raw))
	info := parseOption82(req)
	if info != nil {
		vAssert(len(info.CircuitID) <= n && len(info.RemoteID) <= n, "sub-option longer than the option")
	}
	vReach("end")
}

func init() { vHarness["VerifC09_Option82"] = VerifC09_Option82 }
