//go:build verif

package dhcp

import (
	"net"
	"time"

	"github.com/codelaboratoryltd/bng/pkg/ebpf"
	"github.com/insomniacslk/dhcp/dhcpv4"
	"github.com/insomniacslk/dhcp/iana"
	"go.uber.org/zap"
)

var (
	vMACs = []net.HardwareAddr{{2, 0, 0, 0, 0, 0x11}, {2, 0, 0, 0, 0, 0x22}, {2, 0, 0, 0, 0, 0x33}}
	vCIDs = [][]byte{nil, []byte("port1"), []byte("port2")}
)

// verifV4Server: server over one pool 10.0.0.0/29 (gateway .1, usable .2-.6), zero-value loader (no eBPF maps loaded).
var vV4Usable int // usable addresses of the pool under test

func verifV4Server() (*Server, *Pool) {
	network := &net.IPNet{IP: net.IP{10, 0, 0, 0}, Mask: net.CIDRMask(29, 32)}
	p := &Pool{ID: 1, Name: "p", Network: network, Gateway: net.IP{10, 0, 0, 1}, SubnetMask: network.Mask,
		DNSServers: []net.IP{{10, 0, 0, 53}}, LeaseTime: time.Hour, ClientClass: ClientClassResidential,
		allocated: map[string]net.IP{}, unavailable: map[string]struct{}{}}
	p.available = p.generateAvailableIPs(0, 0)
	vV4Usable = len(p.available)
	pm := NewPoolManager(nil, zap.NewNop())
	pm.pools[1] = p
	pm.defaultPoolID = 1
	s := &Server{iface: "eth0", serverIP: net.IP{10, 0, 0, 1}, logger: zap.NewNop(), loader: &ebpf.Loader{}, poolMgr: pm,
		leases: map[string]*Lease{}, leasesByCircuitID: map[string]*Lease{}}
	return s, p
}

func verifV4Usable(p *Pool, ip net.IP) bool {
	ip4 := ip.To4()
	if ip4 == nil || !p.Network.Contains(ip4) {
		return false
	}
	if ip4.Equal(p.Gateway) {
		return false
	}
	last := ip4[3] & 7
	return last != 0 && last != 7 // network / broadcast of the /29
}

// J: pool sets are disjoint and usable; every unexpired lease's address is the pool's assignment for that client.
func verifV4Invariant(s *Server, p *Pool) {
	var all []net.IP
	all = append(all, p.available...)
	for _, ip := range p.allocated {
		all = append(all, ip)
	}
	for i := range all {
		vAssert(verifV4Usable(p, all[i]), "pool holds an address that is outside the pool or is the gateway/network/broadcast address")
		for j := i + 1; j < len(all); j++ {
			vAssert(!all[i].Equal(all[j]), "one address is in the pool twice (two holders, or held and free)")
		}
	}
	// conservation: every usable address is free, assigned or quarantined - none vanished
	vAssert(len(p.available)+len(p.allocated)+len(p.unavailable) >= vV4Usable, "an address vanished from the pool (neither free, assigned nor quarantined)")
	if vParam("conservation", 0) == 1 {
		return
	}
	now := time.Now()
	for mac, l := range s.leases {
		if now.Before(l.ExpiresAt) {
			got, ok := p.allocated[mac]
			vAssert(ok && got.Equal(l.IP), "an unexpired lease binds an address the pool did not assign to that client")
		}
		for mac2, l2 := range s.leases {
			if mac < mac2 && now.Before(l.ExpiresAt) && now.Before(l2.ExpiresAt) {
				vAssert(!l.IP.Equal(l2.IP), "two unexpired leases on one address")
			}
		}
	}
}

func verifV4Req(t dhcpv4.MessageType, who int, tag string) *dhcpv4.DHCPv4 {
	req := &dhcpv4.DHCPv4{OpCode: dhcpv4.OpcodeBootRequest, HWType: iana.HWTypeEthernet, ClientHWAddr: vMACs[who],
		ClientIPAddr: net.IP{0, 0, 0, 0}, YourIPAddr: net.IP{0, 0, 0, 0}, ServerIPAddr: net.IP{0, 0, 0, 0}, GatewayIPAddr: net.IP{0, 0, 0, 0},
		Options: dhcpv4.Options{}}
	copy(req.TransactionID[:], ndBytes(tag+".xid", 4))
	req.UpdateOption(dhcpv4.OptMessageType(t))
	switch ndPick(tag+".addrfields", 3) {
	case 0: // option 50 carries an arbitrary address
		req.UpdateOption(dhcpv4.OptRequestedIPAddress(net.IP(ndBytes(tag+".req", 4))))
	case 1: // ciaddr carries an arbitrary address
		req.ClientIPAddr = net.IP(ndBytes(tag+".ciaddr", 4))
	case 2: // neither
	}
	if c := ndPick(tag+".relay", 3); c > 0 {
		req.GatewayIPAddr = net.IP{10, 9, 9, 9}
		cid := vCIDs[c]
		opt82 := append([]byte{1, byte(len(cid))}, cid...)
		req.UpdateOption(dhcpv4.OptGeneric(dhcpv4.OptionRelayAgentInformation, opt82))
	}
	return req
}

var vV4Types = []dhcpv4.MessageType{dhcpv4.MessageTypeDiscover, dhcpv4.MessageTypeRequest, dhcpv4.MessageTypeRelease, dhcpv4.MessageTypeDecline, dhcpv4.MessageTypeInform}

// verifV4AnyState puts clients 0 and 1 into arbitrary binding states the server itself produces:
// 0 none, 1 offered (pool assignment only), 2 leased and unexpired, 3 leased and expired (cleanup not run yet).
// Which concrete address a client holds is taken in pool order (addresses are interchangeable).
func verifV4AnyState(s *Server, p *Pool) {
	now := time.Now()
	full := vParam("full", 0) == 1
	for i := 0; i < 2; i++ {
		st := ndPick("state", 4)
		if !full && i == 1 && (st == 1 || st == 3) {
			vAssume(false) // quick tier: the second client is either absent or holds an unexpired lease
		}
		if st == 0 {
			continue
		}
		ip, err := p.Allocate(vMACs[i])
		vAssume(err == nil)
		if st >= 2 {
			// the session started some arbitrary time before now
			l := &Lease{MAC: vMACs[i], IP: ip, PoolID: p.ID, SessionID: "sess", SessionStart: now.Add(-ndDuration("session-age"))}
			if st == 2 {
				l.ExpiresAt = now.Add(ndDuration("remaining") + 1)
			} else {
				l.ExpiresAt = now.Add(-ndDuration("expired-for") - 1)
			}
			if i == 0 && ndPick("lease-cid", 2) == 1 {
				l.CircuitID = vCIDs[1]
				s.leasesByCircuitID[hexCID(l.CircuitID)] = l
			}
			s.leases[vMACs[i].String()] = l
		}
	}
}

func hexCID(b []byte) string {
	const digits = "0123456789abcdef"
	out := make([]byte, 0, 2*len(b))
	for _, c := range b {
		out = append(out, digits[c>>4], digits[c&15])
	}
	return string(out)
}

// verifV4Msg builds one message of type t from client `who`; only the address fields that the type reads are varied.
func verifV4Msg(t dhcpv4.MessageType, who int) *dhcpv4.DHCPv4 {
	req := &dhcpv4.DHCPv4{OpCode: dhcpv4.OpcodeBootRequest, HWType: iana.HWTypeEthernet, ClientHWAddr: vMACs[who],
		ClientIPAddr: net.IP{0, 0, 0, 0}, YourIPAddr: net.IP{0, 0, 0, 0}, ServerIPAddr: net.IP{0, 0, 0, 0}, GatewayIPAddr: net.IP{0, 0, 0, 0},
		Options: dhcpv4.Options{}}
	copy(req.TransactionID[:], ndBytes("xid", 4))
	req.UpdateOption(dhcpv4.OptMessageType(t))
	if t == dhcpv4.MessageTypeRequest || t == dhcpv4.MessageTypeDecline {
		if ndPick("opt50", 2) == 1 {
			req.UpdateOption(dhcpv4.OptRequestedIPAddress(net.IP(ndBytes("req", 4))))
		}
	}
	if t != dhcpv4.MessageTypeDiscover {
		if ndPick("ciaddr", 2) == 1 {
			req.ClientIPAddr = net.IP(ndBytes("ciaddr", 4))
		}
	}
	if t == dhcpv4.MessageTypeDiscover || t == dhcpv4.MessageTypeRequest {
		if ndPick("relay", 2) == 1 {
			req.GatewayIPAddr = net.IP{10, 9, 9, 9}
			cid := vCIDs[1]
			req.UpdateOption(dhcpv4.OptGeneric(dhcpv4.OptionRelayAgentInformation, append([]byte{1, byte(len(cid))}, cid...)))
			vTag("relayed-with-circuit-id")
		}
	}
	return req
}

// One inductive step: arbitrary binding state satisfying J, optional passage of time + cleanup tick, one arbitrary message.
func VerifC02_V4Step() {
	s, p := verifV4Server()
	verifV4AnyState(s, p)
	if ndPick("tick", 2) == 1 {
		vAdvance(int64(ndDuration("dt")))
		s.cleanupExpiredLeases()
		verifV4Invariant(s, p)
	}
	who := ndPick("who", 3)
	if vParam("full", 0) == 0 && who == 1 {
		vAssume(false) // quick tier: the message comes from the first client or from a new one
	}
	t := vV4Types[ndPick("type", len(vV4Types))]
	vTag("type=" + t.String())
	req := verifV4Msg(t, who)
	mac := vMACs[who].String()
	var held net.IP
	if l, ok := s.leases[mac]; ok && time.Now().Before(l.ExpiresAt) {
		held = l.IP
	}
	var resp *dhcpv4.DHCPv4
	var err error
	switch t {
	case dhcpv4.MessageTypeDiscover:
		resp, err = s.handleDiscover(req)
	case dhcpv4.MessageTypeRequest:
		resp, err = s.handleRequest(req)
	case dhcpv4.MessageTypeRelease:
		s.handleRelease(req)
	case dhcpv4.MessageTypeDecline:
		s.handleDecline(req)
	case dhcpv4.MessageTypeInform:
		resp, err = s.handleInform(req)
	}
	vRunPending()
	// (registered under C05 with conservation=1: only the pool/lease invariant incl. conservation is asserted there)
	if vParam("conservation", 0) == 0 && err == nil && resp != nil && (resp.MessageType() == dhcpv4.MessageTypeOffer || (resp.MessageType() == dhcpv4.MessageTypeAck && t == dhcpv4.MessageTypeRequest)) {
		y := resp.YourIPAddr
		vAssert(verifV4Usable(p, y), "OFFER/ACK for an address outside the pool or for the gateway/network/broadcast address")
		for other, ip := range p.allocated {
			if other != mac {
				vAssert(!ip.Equal(y), "OFFER/ACK for an address that is assigned to a different client")
			}
		}
		if held != nil {
			vAssert(y.Equal(held), "a client with an unexpired binding was answered with a different address")
		}
		_, bad := p.unavailable[y.String()]
		vAssert(!bad, "a declined address was offered again")
		if resp.MessageType() == dhcpv4.MessageTypeAck {
			// the binding the server keeps lasts as long as the lease it just acknowledged
			if l, ok := s.leases[mac]; ok {
				vAssert(l.ExpiresAt.Sub(time.Now()) >= p.LeaseTime, "the server's own expiry of an acknowledged lease is earlier than the lease time it announced (the address can be given away inside the lease)")
			}
		}
	}
	if t == dhcpv4.MessageTypeRelease && held != nil {
		_, still := p.allocated[mac]
		vAssert(!still, "released address is still assigned in the pool")
	}
	if t == dhcpv4.MessageTypeDecline && held != nil {
		// the declined address must not come back: neither free nor still assigned to the decliner
		if opt := req.RequestedIPAddress(); opt != nil && opt.Equal(held) {
			for _, ip := range p.available {
				vAssert(!ip.Equal(held), "declined address is back in the free list")
			}
			again, e2 := s.handleDiscover(verifV4Plain(dhcpv4.MessageTypeDiscover, who))
			if e2 == nil && again != nil {
				vAssert(!again.YourIPAddr.Equal(held), "a declined address was offered again")
			}
		}
	}
	verifV4Invariant(s, p)
	vReach("end")
}

func verifV4Plain(t dhcpv4.MessageType, who int) *dhcpv4.DHCPv4 {
	req := &dhcpv4.DHCPv4{OpCode: dhcpv4.OpcodeBootRequest, HWType: iana.HWTypeEthernet, ClientHWAddr: vMACs[who],
		ClientIPAddr: net.IP{0, 0, 0, 0}, YourIPAddr: net.IP{0, 0, 0, 0}, ServerIPAddr: net.IP{0, 0, 0, 0}, GatewayIPAddr: net.IP{0, 0, 0, 0},
		Options: dhcpv4.Options{}}
	req.UpdateOption(dhcpv4.OptMessageType(t))
	return req
}

func init() {
	vHarness["VerifC02_V4Step"] = VerifC02_V4Step
}
