//go:build verif

package dhcp

import (
	"net"
	"time"

	"github.com/codelaboratoryltd/bng/pkg/ebpf"
	"github.com/codelaboratoryltd/bng/pkg/nat"
	"github.com/codelaboratoryltd/bng/pkg/qos"
	"github.com/codelaboratoryltd/bng/pkg/radius"
	"github.com/insomniacslk/dhcp/dhcpv4"
	"go.uber.org/zap"
)

// verifC16Server: DHCP server with every optional integration a session can hold something in: fast-path loader
// (kernel map models), NAT manager, QoS manager, RADIUS accounting (server always reachable).
func verifC16Server() (*Server, *Pool, *nat.Manager, *qos.Manager) {
	vBPFMapsMode("null")
	vRadiusServer(1)
	loader := ebpf.VerifNewLoader()
	network := &net.IPNet{IP: net.IP{10, 20, 30, 0}, Mask: net.CIDRMask(29, 32)}
	p := &Pool{ID: 7, Name: "p", Network: network, Gateway: net.IP{10, 20, 30, 1}, SubnetMask: network.Mask,
		LeaseTime: 600 * time.Second, ClientClass: ClientClassResidential, DNSServers: []net.IP{{10, 20, 30, 53}},
		allocated: map[string]net.IP{}, unavailable: map[string]struct{}{}}
	p.available = p.generateAvailableIPs(0, 0)
	pm := NewPoolManager(loader, zap.NewNop())
	vAssume(pm.AddPool(p) == nil)
	vAssume(loader.SetServerConfig(vMACs[2], net.IP{10, 20, 30, 1}, 3) == nil)
	s := &Server{iface: "eth0", serverIP: net.IP{10, 20, 30, 1}, logger: zap.NewNop(), loader: loader, poolMgr: pm,
		leases: map[string]*Lease{}, leasesByCircuitID: map[string]*Lease{}}
	nm := nat.VerifNewManager()
	pol := radius.NewPolicyManager()
	for _, qp := range radius.DefaultPolicies() {
		vAssume(pol.AddPolicy(qp) == nil)
	}
	qm := qos.VerifNewManager(pol)
	s.SetNATManager(nm)
	s.SetQoSManager(qm)
	s.SetRADIUSClient(radius.VerifAcctClient())
	return s, p, nm, qm
}

func verifPoolHolds(p *Pool, ip net.IP) (allocated bool, freeCopies int) {
	for _, a := range p.allocated {
		if a.Equal(ip) {
			allocated = true
		}
	}
	for _, a := range p.available {
		if a.Equal(ip) {
			freeCopies++
		}
	}
	return
}

// Every way a DHCP session can end (RELEASE, DECLINE, lease expiry) - once, twice, or by two different paths -
// leaves nothing behind: address out of the allocated set (and at most once in the free list), NAT block and QoS
// policy gone, no fast-path entry under any of the three keys, exactly one Accounting-Stop for the one Start.
func VerifC16_DHCPEnd() {
	s, p, nm, qm := verifC16Server()
	who := 0
	keying := ndPick("keying", 3) // 0: MAC only, 1: QinQ tag pair, 2: relayed with circuit-id
	var cid []byte
	if keying == 2 {
		cid = vCIDs[1]
	}
	opt82 := 0 // 0: full Option 82, 1: remote-id only, 2: no Option 82
	relay := func(m *dhcpv4.DHCPv4) *dhcpv4.DHCPv4 {
		if cid != nil {
			m.GatewayIPAddr = net.IP{10, 9, 9, 9}
			o := []byte{2, 3, 'r', 'i', 'd'}
			if opt82 == 0 {
				o = append(append([]byte{1, byte(len(cid))}, cid...), o...)
			}
			if opt82 < 2 {
				m.UpdateOption(dhcpv4.OptGeneric(dhcpv4.OptionRelayAgentInformation, o))
			}
		}
		return m
	}
	// how far establishment got before the end strikes: only an OFFER, or a full ACK (and possibly a renewal)
	stage := ndPick("stage", 3)
	off, err := s.handleDiscover(relay(verifV4Plain(dhcpv4.MessageTypeDiscover, who)))
	vAssume(err == nil && off != nil)
	ip := off.YourIPAddr
	if stage >= 1 {
		req := relay(verifV4Plain(dhcpv4.MessageTypeRequest, who))
		req.UpdateOption(dhcpv4.OptRequestedIPAddress(ip))
		ack, err := s.handleRequest(req)
		vAssume(err == nil && ack != nil && ack.MessageType() == dhcpv4.MessageTypeAck)
		vRunPending()
		if keying == 1 {
			l := s.leases[vMACs[who].String()]
			l.STag, l.CTag = 100, 200
			vAssume(s.updateFastPathCache(vMACs[who], l, p) == nil)
		}
		vAssert(radius.VerifAcctCount("", radius.AcctStatusStart) == 1, "an established session has exactly one Accounting-Start")
		vAssert(nm.VerifHolds(ip), "an established session holds its NAT block")
		vAssert(qm.VerifHolds(ip), "an established session holds its QoS policy")
	}
	if stage == 2 {
		if ndPick("renewal-after-expiry", 2) == 1 {
			// the renewal arrives after the lease ran out but before the cleanup sweep noticed
			vAdvance(int64(p.LeaseTime) + 1e9)
			vTag("late-renewal")
		}
		if cid != nil {
			opt82 = ndPick("renewal-option82", 3) // some relays add only their remote-id, or nothing, to a unicast renewal
		}
		ren := relay(verifV4Plain(dhcpv4.MessageTypeRequest, who))
		ren.ClientIPAddr = ip
		rack, rerr := s.handleRequest(ren)
		vAssume(rerr == nil && rack != nil && rack.MessageType() == dhcpv4.MessageTypeAck)
		vRunPending()
		if keying == 1 {
			// nothing in the server sets the tag pair of a lease: whoever set it on the first lease sets it on the renewed one
			l := s.leases[vMACs[who].String()]
			l.STag, l.CTag = 100, 200
		}
		vAssert(radius.VerifAcctCount("", radius.AcctStatusStart) == 1, "a renewal must not issue a second Accounting-Start")
	}
	end := func(path int) {
		switch path {
		case 0:
			vTag("release")
			rel := verifV4Plain(dhcpv4.MessageTypeRelease, who)
			rel.ClientIPAddr = net.IP(ndBytes("release-ciaddr", 4)) // whatever the client wrote into ciaddr
			s.handleRelease(rel)
		case 1:
			vTag("decline")
			dec := verifV4Plain(dhcpv4.MessageTypeDecline, who)
			dec.UpdateOption(dhcpv4.OptRequestedIPAddress(net.IP(ndBytes("declined-address", 4))))
			s.handleDecline(dec)
		case 2:
			vTag("expiry")
			vAdvance(int64(p.LeaseTime) + 1e9)
			s.cleanupExpiredLeases()
		}
		vRunPending()
	}
	first := ndPick("end", 3)
	end(first)
	verifC16Nothing(s, p, nm, qm, ip, stage, "after the session ended")
	if again := ndPick("again", 4); again < 3 {
		vTag("twice")
		end(again)
		verifC16Nothing(s, p, nm, qm, ip, stage, "after the session was ended a second time")
	}
	vReach("end")
}

func verifC16Nothing(s *Server, p *Pool, nm *nat.Manager, qm *qos.Manager, ip net.IP, stage int, when string) {
	allocated, freeCopies := verifPoolHolds(p, ip)
	// (an OFFER that was never requested is a reservation, not a session: its address is outside this property)
	vAssert(!allocated || stage == 0, when+": its address is still assigned in the pool")
	vAssert(freeCopies <= 1, when+": its address is in the free list twice")
	_, quarantined := p.unavailable[ip.String()]
	vAssert(freeCopies == 1 || quarantined || stage == 0, when+": its address is neither free nor quarantined (lost)")
	vAssert(len(s.leases) == 0 && len(s.leasesByCircuitID) == 0, when+": a lease record remains")
	vAssert(!nm.VerifHolds(ip) && nm.VerifBlocks() == 0, when+": its NAT block is still allocated")
	vAssert(!qm.VerifHolds(ip) && qos.VerifMapEntries() == 0, when+": its QoS policy is still installed")
	vAssert(vBPFMapLive("dhcp_fastpath", "subscriber_pools") == 0, when+": a fast-path entry keyed by MAC remains")
	vAssert(vBPFMapLive("dhcp_fastpath", "vlan_subscriber_pools") == 0, when+": a fast-path entry keyed by VLAN pair remains")
	vAssert(vBPFMapLive("dhcp_fastpath", "circuit_id_map") == 0 && vBPFMapLive("dhcp_fastpath", "circuit_id_subscribers") == 0, when+": a fast-path entry keyed by circuit-id remains")
	starts, stops := radius.VerifAcctCount("", radius.AcctStatusStart), radius.VerifAcctCount("", radius.AcctStatusStop)
	vAssert(stops == starts, when+": Accounting-Stop count differs from Accounting-Start count")
	vAssert(stops <= 1, when+": more than one Accounting-Stop for one session")
}

func init() { vHarness["VerifC16_DHCPEnd"] = VerifC16_DHCPEnd }
