//go:build verif

package dhcp

import (
	"bytes"
	"encoding/binary"
	"net"
	"time"

	"github.com/codelaboratoryltd/bng/pkg/ebpf"
	"github.com/insomniacslk/dhcp/dhcpv4"
	"go.uber.org/zap"
)

const (
	xdpDrop = 1
	xdpPass = 2
	xdpTx   = 3
)

// verifFastServer: DHCP server + pool manager + loader whose maps are the models shared with bpf/dhcp_fastpath.c.
func verifFastServer() (*Server, *Pool) {
	vBPFMapsMode("null")
	loader := ebpf.VerifNewLoader()
	plen := []int{24, 29, 30}[ndPick("prefixlen", 3)]
	network := &net.IPNet{IP: net.IP{10, 20, 30, 0}, Mask: net.CIDRMask(plen, 32)}
	p := &Pool{ID: 7, Name: "p", Network: network, Gateway: net.IP{10, 20, 30, 1}, SubnetMask: network.Mask,
		LeaseTime: time.Duration(600+ndPick("lease", 2)*3000) * time.Second, ClientClass: ClientClassResidential,
		allocated: map[string]net.IP{}, unavailable: map[string]struct{}{}}
	switch ndPick("dns", 3) {
	case 1:
		p.DNSServers = []net.IP{{10, 20, 30, 53}}
	case 2:
		p.DNSServers = []net.IP{{10, 20, 30, 53}, {9, 9, 9, 9}}
	}
	p.available = p.generateAvailableIPs(0, 0)
	pm := NewPoolManager(loader, zap.NewNop())
	vAssume(pm.AddPool(p) == nil) // writes ip_pools
	serverIP := net.IP{10, 20, 30, 1}
	if ndPick("serverid", 2) == 1 {
		vAssume(loader.SetServerConfig(vMACs[2], serverIP, 3) == nil)
	} else {
		vAssume(loader.SetServerConfig(vMACs[2], net.IP{0, 0, 0, 0}, 3) == nil)
	}
	s := &Server{iface: "eth0", serverIP: serverIP, logger: zap.NewNop(), loader: loader, poolMgr: pm,
		leases: map[string]*Lease{}, leasesByCircuitID: map[string]*Lease{}}
	return s, p
}

// verifFrame builds a DHCP request frame from client `who`: untagged / 802.1Q / QinQ (arbitrary PCP/DEI bits),
// arbitrary xid, flags, IP id and TTL, message type t, 64-byte option area.
func verifFrame(who int, t byte, tags int, relayCID []byte) []byte {
	l2 := 14 + 4*tags
	f := make([]byte, l2+20+8+240+64)
	for i := 0; i < 6; i++ {
		f[i] = 0xff
	}
	copy(f[6:12], vMACs[who])
	o := 12
	if tags == 2 {
		f[o], f[o+1] = 0x88, 0xa8
		tci := uint16(ndU8("stag.pcpdei")&0xF0)<<8 | 100
		f[o+2], f[o+3] = byte(tci>>8), byte(tci)
		o += 4
	}
	if tags >= 1 {
		f[o], f[o+1] = 0x81, 0x00
		tci := uint16(ndU8("ctag.pcpdei")&0xF0)<<8 | 200
		f[o+2], f[o+3] = byte(tci>>8), byte(tci)
		o += 4
	}
	f[o], f[o+1] = 0x08, 0x00
	ip := f[l2:]
	ip[0] = 0x45
	binary.BigEndian.PutUint16(ip[2:4], uint16(len(f)-l2))
	copy(ip[4:6], ndBytes("ipid", 2))
	ip[8] = ndU8("ttl")
	ip[9] = 17
	copy(ip[16:20], []byte{255, 255, 255, 255})
	udp := ip[20:]
	binary.BigEndian.PutUint16(udp[0:2], 68)
	binary.BigEndian.PutUint16(udp[2:4], 67)
	binary.BigEndian.PutUint16(udp[4:6], uint16(len(f)-l2-20))
	b := udp[8:]
	b[0], b[1], b[2] = 1, 1, 6
	copy(b[4:8], ndBytes("xid", 4))
	copy(b[10:12], ndBytes("flags", 2))
	copy(b[28:34], vMACs[who])
	copy(b[236:240], []byte{0x63, 0x82, 0x53, 0x63})
	b[240], b[241], b[242], b[243] = 53, 1, t, 255
	if relayCID != nil {
		// relayed: giaddr set, Option 82 with the circuit-id directly after the message type
		copy(b[24:28], []byte{10, 9, 9, 9})
		o82 := append([]byte{82, byte(2 + len(relayCID)), 1, byte(len(relayCID))}, relayCID...)
		copy(b[243:], o82)
		b[243+len(o82)] = 255
	}
	return f
}

func verifOpt(opts []byte, code byte) []byte {
	for i := 0; i+1 < len(opts); {
		c := opts[i]
		if c == 255 {
			break
		}
		if c == 0 {
			i++
			continue
		}
		l := int(opts[i+1])
		if i+2+l > len(opts) {
			break
		}
		if c == code {
			return opts[i+2 : i+2+l]
		}
		i += 2 + l
	}
	return nil
}

func verifIPSumOK(hdr []byte) bool {
	var sum uint32
	for i := 0; i+1 < len(hdr); i += 2 {
		sum += uint32(hdr[i])<<8 | uint32(hdr[i+1])
	}
	sum = (sum & 0xffff) + (sum >> 16)
	sum = (sum & 0xffff) + (sum >> 16)
	return sum == 0xffff
}

// The kernel fast path against the userspace server, on the cache state the real userspace handlers produced.
func VerifC03_FastpathAgreesWithServer() {
	s, p := verifFastServer()
	who := 0
	tags := ndPick("tags", 3)
	var cid []byte
	relay := func(m *dhcpv4.DHCPv4, withCID bool) *dhcpv4.DHCPv4 {
		if cid != nil {
			m.GatewayIPAddr = net.IP{10, 9, 9, 9}
			o := []byte{2, 3, 'r', 'i', 'd'}
			if withCID {
				o = append(append([]byte{1, byte(len(cid))}, cid...), o...)
			}
			m.UpdateOption(dhcpv4.OptGeneric(dhcpv4.OptionRelayAgentInformation, o))
		}
		return m
	}
	if tags == 0 && ndPick("relayed", 2) == 1 {
		cid = vCIDs[1]
	}
	// the client obtains its lease through the slow path (DISCOVER, REQUEST)
	off, err := s.handleDiscover(relay(verifV4Plain(dhcpv4.MessageTypeDiscover, who), true))
	vAssume(err == nil && off != nil)
	req := relay(verifV4Plain(dhcpv4.MessageTypeRequest, who), true)
	req.UpdateOption(dhcpv4.OptRequestedIPAddress(off.YourIPAddr))
	ack, err := s.handleRequest(req)
	vAssume(err == nil && ack != nil && ack.MessageType() == dhcpv4.MessageTypeAck)
	vRunPending()
	if cid != nil && ndPick("renewal", 3) > 0 {
		// a renewal in between: with the full Option 82, or with a relay that only adds its remote-id
		ren := relay(verifV4Plain(dhcpv4.MessageTypeRequest, who), ndPick("renewal-has-circuit-id", 2) == 1)
		ren.ClientIPAddr = off.YourIPAddr
		rack, rerr := s.handleRequest(ren)
		vAssume(rerr == nil && rack != nil && rack.MessageType() == dhcpv4.MessageTypeAck)
		vRunPending()
	}
	if tags > 0 {
		// QinQ / VLAN deployments key the cache by the tag pair
		stag, ctag := uint16(0), uint16(200)
		if tags == 2 {
			stag = 100
		}
		l := s.leases[vMACs[who].String()]
		l.STag, l.CTag = stag, ctag
		vAssume(s.updateFastPathCache(vMACs[who], l, p) == nil)
	}
	newCPE := (tags == 2 || cid != nil) && ndPick("frame-from-new-cpe", 2) == 1
	ending := ndPick("then", 5) // 0: lease stays, 1: client releases, 2: lease expires + cleanup tick, 3: client declines, 4: lease expires, cleanup tick not yet run
	switch ending {
	case 1:
		rel := verifV4Plain(dhcpv4.MessageTypeRelease, who)
		s.handleRelease(rel)
		vRunPending()
		vTag("after-release")
	case 2:
		vAdvance(int64(p.LeaseTime) + int64(ndDuration("past-expiry")) + 1)
		s.cleanupExpiredLeases()
		vTag("after-expiry")
		if tags > 0 {
			vTag("vlan-keyed")
		}
	case 3:
		dec := verifV4Plain(dhcpv4.MessageTypeDecline, who)
		dec.UpdateOption(dhcpv4.OptRequestedIPAddress(off.YourIPAddr))
		s.handleDecline(dec)
		vRunPending()
		vTag("after-decline")
	case 4:
		vAdvance(int64(p.LeaseTime) + int64(ndDuration("past-expiry")) + 1)
		vTag("expired-before-cleanup-tick")
	}
	mt := byte(1 + 2*ndPick("request", 2)) // DISCOVER(1) or REQUEST(3)
	// the frame comes from the subscriber's MAC, or (VLAN- or circuit-keyed deployments) from a replaced CPE on the same line
	fwho := who
	if newCPE {
		fwho = 1
	}
	if ending != 4 { // (the known clock-domain finding is independent of the keying)
		if tags == 2 {
			vTag("qinq")
		}
		if cid != nil {
			vTag("relayed")
		}
		if newCPE {
			vTag("new-cpe-mac")
		}
	}
	frame := verifFrame(fwho, mt, tags, cid)
	orig := append([]byte(nil), frame...)
	ktime := ndU64("ktime")
	vAssume(ktime < 1<<59) // kernel monotonic clock: up to 18 years of uptime
	vBPFNow(ktime)
	verdict := vBPFRun("dhcp_fastpath", "dhcp_fastpath_prog", "xdp", frame)
	out := vBPFPacket()
	vAssert(verdict == xdpPass || verdict == xdpTx || verdict == xdpDrop, "fast path returned an undefined verdict for a DHCP request")
	if verdict == xdpDrop {
		vReach("drop")
		return
	}
	if verdict == xdpPass {
		vAssert(len(out) == len(orig) && bytes.Equal(out, orig), "frame handed to userspace differs from the frame received")
		if ending == 0 {
			// not forbidden by C03 (the slow path answers), but it means the key the control plane wrote is not the key
			// the program derives from this frame (C06) - with the uptime bound the expiry test cannot be the reason
			vAssert(false, "fast path misses the live lease the slow path cached for this very client (key derivation disagreement)")
		}
		vReach("pass")
		return
	}
	vAssert(ending == 0, "fast path still answers after the lease was released or expired in userspace")
	// ---- the reply is well formed ----
	l2 := 14 + 4*tags
	vAssert(len(out) >= l2+28+240, "reply shorter than Ethernet/IP/UDP/BOOTP headers")
	ip, udp, b := out[l2:], out[l2+20:], out[l2+28:]
	vAssert(int(binary.BigEndian.Uint16(ip[2:4])) == len(out)-l2, "IPv4 total length differs from the frame length")
	vAssert(int(binary.BigEndian.Uint16(udp[4:6])) == len(out)-l2-20, "UDP length inconsistent with the IPv4 length")
	vAssert(verifIPSumOK(ip[:20]), "IPv4 header checksum of the reply is invalid")
	wantDst := uint16(68)
	if cid != nil {
		wantDst = 67 // relayed: the reply goes back to the relay agent's server port
	}
	vAssert(binary.BigEndian.Uint16(udp[0:2]) == 67 && binary.BigEndian.Uint16(udp[2:4]) == wantDst, "reply UDP ports are not 67->68 (67->67 when relayed)")
	ob := orig[l2+28:]
	vAssert(b[0] == 2, "reply is not a BOOTREPLY")
	vAssert(bytes.Equal(b[4:8], ob[4:8]) && bytes.Equal(b[10:12], ob[10:12]) && bytes.Equal(b[28:44], ob[28:44]), "reply changes xid, flags or client hardware address")
	vAssert(bytes.Equal(b[236:240], []byte{0x63, 0x82, 0x53, 0x63}), "reply lost the DHCP magic cookie")
	opts := b[240:]
	wantType := byte(dhcpv4.MessageTypeOffer)
	if mt == 3 {
		wantType = byte(dhcpv4.MessageTypeAck)
	}
	t53 := verifOpt(opts, 53)
	vAssert(len(t53) == 1 && t53[0] == wantType, "reply type is not OFFER for DISCOVER / ACK for REQUEST")
	// ---- the reply carries what userspace sends to this subscriber right now ----
	if fwho != who {
		vReach("tx")
		return // userspace keys by MAC; only the lookup itself is compared for a replaced CPE
	}
	var us *dhcpv4.DHCPv4
	if mt == 1 {
		us, err = s.handleDiscover(relay(verifV4Plain(dhcpv4.MessageTypeDiscover, who), true))
	} else {
		r2 := relay(verifV4Plain(dhcpv4.MessageTypeRequest, who), true)
		r2.UpdateOption(dhcpv4.OptRequestedIPAddress(off.YourIPAddr))
		us, err = s.handleRequest(r2)
	}
	vAssume(err == nil && us != nil)
	vAssert(bytes.Equal(b[16:20], us.YourIPAddr.To4()), "fast path yiaddr differs from the address userspace assigns")
	vAssert(bytes.Equal(verifOpt(opts, 54), us.Options.Get(dhcpv4.OptionServerIdentifier)), "server identifier differs from userspace")
	vAssert(bytes.Equal(verifOpt(opts, 1), us.Options.Get(dhcpv4.OptionSubnetMask)), "subnet mask differs from userspace")
	vAssert(bytes.Equal(verifOpt(opts, 3), us.Options.Get(dhcpv4.OptionRouter)), "router differs from userspace")
	vAssert(bytes.Equal(verifOpt(opts, 6), us.Options.Get(dhcpv4.OptionDomainNameServer)), "DNS servers differ from userspace")
	vAssert(bytes.Equal(verifOpt(opts, 51), us.Options.Get(dhcpv4.OptionIPAddressLeaseTime)), "lease time differs from userspace")
	vReach("tx")
}

func init() { vHarness["VerifC03_FastpathAgreesWithServer"] = VerifC03_FastpathAgreesWithServer }

// C07: a structurally valid DHCP request cut at every possible length inside / after the BOOTP header, with an
// arbitrary option area and arbitrary cache contents: no access outside the frame, PASS leaves it untouched.
func VerifC07_DHCPTruncated() {
	vBPFMapsMode("null") // empty caches: every lookup path is walked to its miss (cache hits are covered by the C03 harness)
	tags := ndPick("tags", 3)
	full := verifFrame(0, 1, tags, nil)
	l2 := 14 + 4*tags
	optStart := l2 + 28 + 240
	// option area: no Option 82, or an Option 82 header at each position the program inspects (3, 12..19) with
	// arbitrary length / sub-option bytes and a circuit-id length from the boundary set
	full[optStart+2] = byte(1 + 2*ndPick("request", 2))
	if c := ndPick("opt82-at", 10); c > 0 {
		pos := 3
		if c > 1 {
			pos = 10 + c // 12..19
		}
		full[optStart+pos] = 82
		full[optStart+pos+1] = ndU8("opt82.len")
		full[optStart+pos+2] = ndU8("opt82.sub")
		full[optStart+pos+3] = []byte{0, 1, 5, 32, 33, 255}[ndPick("cid.len", 6)]
	}
	n := optStart - 4 + ndPick("cut", 72) // from inside the magic cookie to the full 64-byte option area
	vAssume(n <= len(full))
	pkt := full[:n]
	orig := append([]byte(nil), pkt...)
	v := vBPFRun("dhcp_fastpath", "dhcp_fastpath_prog", "xdp", pkt)
	out := vBPFPacket()
	vAssert(v == xdpPass || v == xdpTx || v == xdpDrop, "undefined verdict")
	if v == xdpPass {
		vAssert(len(out) == len(orig) && bytes.Equal(out, orig), "frame handed to userspace differs from the frame received")
	}
	vReach("end")
}

func init() { vHarness["VerifC07_DHCPTruncated"] = VerifC07_DHCPTruncated }

// Circuit-ids longer than the 32-byte map key: two relayed subscribers on lines whose circuit-ids agree in the first
// 32 bytes both hold leases; a request relayed for the first one must be answered (if the fast path answers at all)
// with the first one's address - exactly what userspace answers.
func VerifC03_LongCircuitIDs() {
	s, _ := verifFastServer()
	n := 33 + ndPick("cid-length", 4) // 33..36 bytes
	cidA := make([]byte, n)
	for i := range cidA {
		cidA[i] = byte('a' + i%20)
	}
	cidB := append([]byte(nil), cidA...)
	cidB[n-1] ^= 0x01 // differs only beyond the key size
	relay := func(m *dhcpv4.DHCPv4, cid []byte) *dhcpv4.DHCPv4 {
		m.GatewayIPAddr = net.IP{10, 9, 9, 9}
		m.UpdateOption(dhcpv4.OptGeneric(dhcpv4.OptionRelayAgentInformation, append([]byte{1, byte(len(cid))}, cid...)))
		return m
	}
	lease := func(who int, cid []byte) net.IP {
		off, err := s.handleDiscover(relay(verifV4Plain(dhcpv4.MessageTypeDiscover, who), cid))
		vAssume(err == nil && off != nil)
		req := relay(verifV4Plain(dhcpv4.MessageTypeRequest, who), cid)
		req.UpdateOption(dhcpv4.OptRequestedIPAddress(off.YourIPAddr))
		ack, err := s.handleRequest(req)
		vAssume(err == nil && ack != nil && ack.MessageType() == dhcpv4.MessageTypeAck)
		vRunPending()
		return ack.YourIPAddr
	}
	ipA := lease(0, cidA)
	ipB := lease(1, cidB)
	vAssume(!ipA.Equal(ipB))
	mt := byte(1 + 2*ndPick("request", 2))
	frame := verifFrame(0, mt, 0, cidA)
	ktime := ndU64("ktime")
	vAssume(ktime < 1<<59)
	vBPFNow(ktime)
	verdict := vBPFRun("dhcp_fastpath", "dhcp_fastpath_prog", "xdp", frame)
	if verdict != xdpTx {
		vReach("not-answered")
		return
	}
	out := vBPFPacket()
	vAssert(len(out) >= 14+28+240, "reply shorter than Ethernet/IP/UDP/BOOTP headers")
	b := out[14+28:]
	vAssert(bytes.Equal(b[16:20], ipA.To4()), "fast path yiaddr differs from the address userspace assigns")
	vReach("tx")
}

func init() { vHarness["VerifC03_LongCircuitIDs"] = VerifC03_LongCircuitIDs }


// Every layout of the first option bytes (pad bytes, client-id before the message type, ...): an untagged DHCP
// request whose first `opts` option bytes are arbitrary, cut after each of the first 16 option bytes.
func VerifC07_DHCPOptionLayouts() {
	vBPFMapsMode("null")
	full := verifFrame(0, 1, 0, nil)
	optStart := 14 + 28 + 240
	k := vParam("opts", 14)
	copy(full[optStart:], ndBytes("opts", k))
	n := optStart + ndPick("cut", 17)
	pkt := full[:n]
	orig := append([]byte(nil), pkt...)
	v := vBPFRun("dhcp_fastpath", "dhcp_fastpath_prog", "xdp", pkt)
	out := vBPFPacket()
	vAssert(v == xdpPass || v == xdpTx || v == xdpDrop, "undefined verdict")
	if v == xdpPass {
		vAssert(len(out) == len(orig) && bytes.Equal(out, orig), "frame handed to userspace differs from the frame received")
	}
	vReach("end")
}

func init() { vHarness["VerifC07_DHCPOptionLayouts"] = VerifC07_DHCPOptionLayouts }
